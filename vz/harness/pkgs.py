"""Generated schema-component packages on a scratch sys.path entry (C11, C12, C13)."""
import os
import shutil
import sys
import tempfile

from vz.gen import schema as M

_COUNTER = [0]


class Packages:
    """Creates importable packages whose component.xml is rendered from the schema
    model.  Logical names ('pa', 'pb', ...) map to process-unique real names so
    that sys.modules entries of earlier uses never collide."""

    def __init__(self):
        self.dir = tempfile.mkdtemp(prefix="vz-pkgs-", dir="/dev/shm" if os.path.isdir("/dev/shm") else None)
        sys.path.insert(0, self.dir)
        _COUNTER[0] += 1
        self.suffix = "_%d_%d" % (os.getpid(), _COUNTER[0])
        self.real = {}        # logical -> real name
        self.types = {}       # real name -> tuple of model types, or None
        self.imports = {}     # real name -> tuple of real names its component imports

    def name(self, logical):
        return "vzp" + self.suffix + "_" + logical

    def add_component(self, logical, types, prefix=None, imports=(), extra_files=None):
        real = self.name(logical)
        d = os.path.join(self.dir, real)
        os.makedirs(d)
        with open(os.path.join(d, "__init__.py"), "w") as f:
            f.write("# generated\n")
        lines = ["<component%s>" % (' prefix="%s"' % prefix if prefix else "")]
        for p in imports:
            lines.append('  <import package="%s"/>' % p)
        for t in types:
            lines += M.render_type(t)
        lines.append("</component>")
        with open(os.path.join(d, "component.xml"), "w") as f:
            f.write("\n".join(lines) + "\n")
        for fn, content in (extra_files or {}).items():
            with open(os.path.join(d, fn), "w") as f:
                f.write(content)
        self.real[logical] = real
        self.types[real] = tuple(types)
        self.imports[real] = tuple(imports)
        return real

    def add_package_without_component(self, logical):
        real = self.name(logical)
        d = os.path.join(self.dir, real)
        os.makedirs(d)
        with open(os.path.join(d, "__init__.py"), "w") as f:
            f.write("# generated, no component.xml\n")
        self.real[logical] = real
        self.types[real] = None
        return real

    def add_module(self, logical):
        real = self.name(logical)
        with open(os.path.join(self.dir, real + ".py"), "w") as f:
            f.write("# a module, not a package\n")
        self.real[logical] = real
        self.types[real] = None
        return real

    def missing(self, logical):
        real = self.name(logical)
        self.real[logical] = real
        self.types[real] = None
        return real

    def close(self):
        try:
            sys.path.remove(self.dir)
        except ValueError:
            pass
        for real in list(self.types):
            for k in [k for k in sys.modules if k == real or k.startswith(real + ".")]:
                del sys.modules[k]
        import importlib
        importlib.invalidate_caches()
        shutil.rmtree(self.dir, ignore_errors=True)
