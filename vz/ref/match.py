"""Reference model of schema conformance (C01) and of the value tree (C02).

Written from the property statements and the documentation against the *schema
model* of vz.gen.schema - it never looks at ZConfig's info objects.  Verdicts:
'A' accept, 'R' reject, 'U' unspecified (see DESIGN.md C01 u1-u3: the property
text is silent, the implementation is order-dependent).

Events (what a text is made of):
  ('k', key, value)       key line
  ('o', type, name|None)  '<type name>'
  ('e', type, name|None)  '<type name/>'
  ('c',)                  closer of the innermost open section
Sections still open at the end are closed innermost-first (a complete text).
"""
from vz.gen import schema as M


class OutsideDomain(Exception):
    """The reference was asked about a token it does not define (harness bug)."""


# ---------------------------------------------------------------------------
# key types and value datatypes: tiny, table-driven, independent

_LET = "abcdefghijklmnopqrstuvwxyzABCDEFGHIJKLMNOPQRSTUVWXYZ"
_DIG = "0123456789"


def kt_basic_key(s):
    if not s or s[0] not in _LET:
        return None
    for c in s[1:]:
        if c not in _LET and c not in _DIG and c not in "-._":
            return None
    return s.lower()


def kt_identifier(s):
    if not s or (s[0] not in _LET and s[0] != "_"):
        return None
    for c in s[1:]:
        if c not in _LET and c not in _DIG and c != "_":
            return None
    return s


def kt_ipaddr_or_hostname(s):
    # only the host-name part of the domain is used by the generated tokens
    if ":" in s or (s and s[0] in _DIG):
        raise OutsideDomain(s)
    if len(s) < 2 or (s[0] not in _LET and s[0] != "_"):
        return None
    for c in s[1:]:
        if c not in _LET and c not in _DIG and c not in "-_.":
            return None
    if s[-1] == ".":
        return None
    return s.lower()


def kt_lower_key(s):
    if not s or not all(c in _LET or c in _DIG or c == "_" for c in s) or s[0] in _DIG:
        return None
    return s.lower()


KEYTYPES = {"basic-key": kt_basic_key, "identifier": kt_identifier,
            "ipaddr-or-hostname": kt_ipaddr_or_hostname, "vz.harness.dt.lower_key": kt_lower_key}

BAD = ("bad",)

# datatype -> {text: expected python value}; texts not listed are converted by
# the generic rule below or are outside the domain
VALUE_TABLE = {
    "boolean": {"yes": True, "On": True, "TRUE": True, "no": False, "off": False, "False": False,
                "x": BAD, "": BAD, "1": BAD, "v": BAD, "dv": BAD, "dw": BAD, "d": BAD, "y": BAD, "z": BAD},
    "float": {"7": 7.0, "1.5": 1.5, "-2e3": -2000.0, "x": BAD, "": BAD, "v": BAD, "dv": BAD, "dw": BAD,
              "8": 8.0, "5": 5.0},
    "port-number": {"0": 0, "65535": 65535, "65536": BAD, "-1": BAD, "7": 7, "x": BAD, "": BAD,
                    "v": BAD, "8": 8, "5": 5},
    "byte-size": {"7": 7, "1kb": 1024, "2MB": 2 * 1024 * 1024, "1Gb": 1024 ** 3, "x": BAD, "": BAD,
                  "v": BAD, "8": 8, "5": 5, "1k": BAD},
    "time-interval": {"7": 7, "2m": 120, "1H": 3600, "1d": 86400, "3s": 3, "x": BAD, "": BAD, "v": BAD,
                      "8": 8, "5": 5},
    "identifier": {"v": "v", "Ab_1": "Ab_1", "a-b": BAD, "1a": BAD, "": BAD, "x": "x", "7": BAD},
    "basic-key": {"v": "v", "Ab-1.c": "ab-1.c", "1a": BAD, "": BAD, "x": "x", "7": BAD, "a b": BAD},
    "string-list": {"v": ["v"], "a  b c": ["a", "b", "c"], "": [], "x": ["x"], "7": ["7"]},
    "inet-address": {"7": ("", 7), "Host:80": ("host", 80), "[::1]:8": ("::1", 8), "x": ("x", None),
                     "host:x": BAD, "65536": BAD, "v": ("v", None), "": BAD},
    "null": None,          # identity on the text
}


ALIASES = {"vz.harness.dt.strict_int": "integer"}       # harness datatypes with a stock meaning
SECT_REJECTING = (M.SECT_DT_REJECT, "vz.harness.dt.reject_section")


def convert(datatype, text):
    """('ok', value) | BAD.  Raises OutsideDomain for tokens the table does not fix."""
    datatype = ALIASES.get(datatype, datatype)
    if datatype == "string" or datatype == "null":
        return ("ok", text)
    if datatype == "integer":
        t = text
        if t[:1] in "+-":
            t = t[1:]
        if t and all(c in _DIG for c in t):
            return ("ok", int(text))
        if all(ord(c) < 128 and not c.isspace() and c not in _DIG for c in text):
            return BAD
        raise OutsideDomain((datatype, text))
    tab = VALUE_TABLE.get(datatype)
    if tab is None or text not in tab:
        raise OutsideDomain((datatype, text))
    v = tab[text]
    return BAD if v is BAD else ("ok", v)


# ---------------------------------------------------------------------------
# value trees (canonical, comparable with vz.harness.load.tree)

def scalar(v):
    if isinstance(v, list):
        return ("L",) + tuple(scalar(x) for x in v)
    if isinstance(v, tuple):
        return ("T",) + tuple(scalar(x) for x in v)
    return (type(v).__name__, v)


class Decision:
    __slots__ = ("verdict", "clause", "tree", "state", "open", "origins", "entries")

    def __init__(self):
        self.verdict = "A"
        self.clause = "accepted"
        self.tree = None
        self.state = None
        self.open = ()       # tuple of type names of the sections still open
        self.origins = set()  # {'text','default','container'}: where tree values came from


class _Reject(Exception):
    def __init__(self, clause):
        self.clause = clause


class _Unspec(Exception):
    def __init__(self, clause):
        self.clause = clause


class Cont:
    """An open container of the reference model."""

    def __init__(self, S, tname, name):
        self.S = S
        self.tname = tname
        self.name = name
        self.items = M.eff_items(S, tname)
        self.ktname = M.eff_keytype(S, tname)
        self.kt = KEYTYPES[self.ktname]
        self.vals = {}
        for i, it in enumerate(self.items):
            if M.is_wild(it):
                self.vals[i] = {}
            elif isinstance(it, M.MultiKey) or (isinstance(it, M.Sect) and it.multi):
                self.vals[i] = []
            else:
                self.vals[i] = None
        self.names = set()

    # -- names of keyed children after key-type normalisation
    def declared(self, it):
        if isinstance(it, M.Sect):
            if it.name in ("*", "+"):
                return None
            return self.kt(it.name)
        if it.name == "+":
            return "+"
        return self.kt(it.name)

    def state(self):
        out = []
        for i, it in enumerate(self.items):
            v = self.vals[i]
            if isinstance(v, dict):
                v = tuple(sorted((k, tuple(x) if isinstance(x, list) else x) for k, x in v.items()))
            elif isinstance(v, list):
                v = tuple(v)
            out.append(v)
        return (self.tname, self.name, tuple(out), tuple(sorted(self.names)))


def attr_name(it, kt):
    if it.attribute:
        return it.attribute
    n = kt(it.name) if kt(it.name) is not None else it.name
    bk = kt_basic_key(n)
    return (bk if bk is not None else n).replace("-", "_")


class Matcher:
    def __init__(self, S, clauses=None):
        self.S = S
        self.tt = M.type_table(S)
        self.clauses = clauses
        self.origins = set()
        self.entries = []     # composite-handler entries (C16): (normalised handler name, value tree)

    # ----- events
    def key(self, c, key, value):
        rk = c.kt(key)
        if rk is None:
            raise _Reject("key-normalisation-fails")
        target = None
        for i, it in enumerate(c.items):
            d = c.declared(it)
            if d is not None and d != "+" and d == rk:
                target = i
                break
        wilds = [i for i, it in enumerate(c.items) if M.is_wild(it)]
        if target is not None and isinstance(c.items[target], M.Sect):
            # a key line spelled like a fixed section name
            if wilds:
                raise _Unspec("u3-key-spelled-like-section-with-wildcard")
            raise _Reject("key-not-declared")
        if target is None:
            if not wilds:
                raise _Reject("key-not-declared")
            it = c.items[wilds[0]]
            m = c.vals[wilds[0]]
            if isinstance(it, M.MultiKey):
                m.setdefault(rk, []).append(value)
            else:
                if rk in m:
                    raise _Reject("single-wildcard-key-filled-twice")
                m[rk] = value
            return
        it = c.items[target]
        if isinstance(it, M.MultiKey):
            c.vals[target].append(value)
        else:
            if c.vals[target] is not None:
                raise _Reject("single-key-filled-twice")
            c.vals[target] = value

    def type_fits(self, slot_type, t):
        if slot_type == t:
            return True
        if M.is_abstract(self.S, slot_type):
            return t in M.implementers(self.S, slot_type)
        return False

    @staticmethod
    def name_ok(slotname, n):
        if n in ("*", "+"):
            return False
        if slotname == "+":
            return bool(n)
        if slotname == "*":
            return True
        return n == slotname

    def find_slot(self, c, t, n):
        if t not in self.tt:
            raise _Reject("unknown-type")
        if isinstance(self.tt[t], M.AType):
            raise _Reject("abstract-type-named-directly")
        if n in ("*", "+"):
            raise _Reject("name-rule-literal-star-plus")
        type_fit = [i for i, it in enumerate(c.items)
                    if isinstance(it, M.Sect) and self.type_fits(it.type, t)]
        # a fixed-name slot participates only when the header carries its name
        def slot_name(it):
            return it.name if it.name in ("*", "+") else c.declared(it)
        fits = [i for i in type_fit if self.name_ok(slot_name(c.items[i]), n)]
        if not type_fit:
            raise _Reject("no-slot-admits-type")
        if not fits:
            raise _Reject("name-rule")
        # names reserved by keyed children of this container (u1): unspecified only where the reserving item
        # is declared BEFORE the slot that takes the section (the docs reserve such names, the statement does
        # not); with the slot declared first the statement's letter - the header fits a declared slot by type
        # and by name rule - decides, and the text conforms
        if n:
            for i, it in enumerate(c.items):
                d = c.declared(it)
                if d is not None and d == n and i not in fits and i < fits[0]:
                    raise _Unspec("u1-header-name-equals-reserved-name")
        # first-fit without fall-through (u2): a wildcard slot that fits by type,
        # precedes the first full fit and refuses the name
        for i in type_fit:
            if i >= fits[0]:
                break
            if c.items[i].name in ("*", "+") and i not in fits:
                raise _Unspec("u2-earlier-type-fit-refuses-name")
        if len(fits) > 1:
            raise _Unspec("u2-several-slots-fit")
        return fits[0]

    def add_section(self, c, slot, n, value):
        if n:
            if n in c.names:
                raise _Reject("section-name-reused")
            c.names.add(n)
        it = c.items[slot]
        if it.multi:
            c.vals[slot].append(value)
        else:
            if c.vals[slot] is not None:
                raise _Reject("single-slot-filled-twice")
            c.vals[slot] = value

    # ----- finishing a container: requirement checks, defaults, conversion, tree
    def conv(self, dt, text, origin):
        r = convert(dt, text)
        if r is BAD:
            raise _Reject("value-unconvertible" if origin == "text" else "default-unconvertible")
        self.origins.add(origin)
        return scalar(r[1])

    def finish(self, c):
        attrs = []
        for i, it in enumerate(c.items):
            v = c.vals[i]
            an = attr_name(it, c.kt)
            if isinstance(it, M.Key) and it.name == "+":
                if not v:
                    if it.required:
                        raise _Reject("required-wildcard-map-empty")
                    out = {}
                    for k, dv in (it.default or ()):
                        nk = c.kt(k)
                        out[nk] = self.conv(it.datatype, dv, "default")
                else:
                    out = {k: self.conv(it.datatype, x, "text") for k, x in v.items()}
                val = ("D",) + tuple(sorted(out.items()))
                self.origins.add("container")
            elif isinstance(it, M.MultiKey) and it.name == "+":
                if not v:
                    if it.required:
                        raise _Reject("required-wildcard-map-empty")
                    out = {}
                    for k, dv in it.defaults:
                        nk = c.kt(k)
                        out.setdefault(nk, []).append(self.conv(it.datatype, dv, "default"))
                else:
                    out = {k: [self.conv(it.datatype, x, "text") for x in xs] for k, xs in v.items()}
                val = ("D",) + tuple(sorted((k, ("L",) + tuple(xs)) for k, xs in out.items()))
                self.origins.add("container")
            elif isinstance(it, M.Key):
                if v is not None:
                    val = self.conv(it.datatype, v, "text")
                elif it.default is not None:
                    val = self.conv(it.datatype, it.default, "default")
                elif it.required:
                    raise _Reject("required-key-missing")
                else:
                    val = scalar(None)
            elif isinstance(it, M.MultiKey):
                if v:
                    val = ("L",) + tuple(self.conv(it.datatype, x, "text") for x in v)
                else:
                    if it.required and not it.defaults:
                        raise _Reject("required-multikey-empty")
                    val = ("L",) + tuple(self.conv(it.datatype, x, "default") for x in it.defaults)
                self.origins.add("container")
            elif it.multi:
                if it.required and not v:
                    raise _Reject("required-multisection-empty")
                val = ("L",) + tuple(v)
                self.origins.add("container")
            else:
                if v is None:
                    if it.required:
                        raise _Reject("required-section-missing")
                    val = scalar(None)
                else:
                    val = v
            attrs.append((an, val))
            if it.handler:
                self.entries.append((kt_basic_key(it.handler), val))
        tree = ("S", c.tname, c.name, tuple(attrs))
        dt = M.eff_datatype(self.S, c.tname)
        if dt == "null":
            return tree
        if dt == M.SECT_DT_WRAP:
            return ("W", tree)
        if dt == M.SECT_DT_WRAP2:
            return ("W2", tree)
        if dt in SECT_REJECTING:
            for an, val in attrs:
                if an == "lk" and val == ("str", "x"):
                    raise _Reject("section-datatype-rejects")
            return tree
        raise OutsideDomain(dt)


def import_component(S, imported, name, packages, package_imports=None):
    """Effect of '%import name' on the schema model of THIS load.  packages maps an
    importable package name to the tuple of types its component defines, or to
    None for names that are not packages providing a component; package_imports maps
    a package to the packages its component imports (read before its own types; a
    component is read at most once per load, so cycles are harmless)."""
    if packages is None or packages.get(name) is None:
        raise _Reject("import-refused-not-a-component-package")
    if name in imported:
        return S                      # idempotent within a load
    imported.add(name)
    for sub in (package_imports or {}).get(name, ()):
        S = import_component(S, imported, sub, packages, package_imports)
    tt = M.type_table(S)
    new = []
    for t in packages[name]:
        if t.name in tt or any(t.name == n.name for n in new):
            raise _Reject("import-redefines-type")
        if isinstance(t, M.SType):
            if t.implements and not isinstance(tt.get(t.implements), M.AType):
                raise _Reject("import-implements-unknown-abstract-type")
            if t.extends and not (isinstance(tt.get(t.extends), M.SType) or any(t.extends == n.name for n in new)):
                raise _Reject("import-extends-unknown-type")
        new.append(t)
    from dataclasses import replace
    return replace(S, types=tuple(S.types) + tuple(new))


def decide(S, events, want_state=False, packages=None, preimported=(), package_imports=None):
    """Run the reference model over a complete text given as an event list.
    `preimported`: packages the schema itself imports (their types are already in S)."""
    d = Decision()
    m = Matcher(S)
    imported = set(preimported)
    stack = [Cont(S, None, None)]
    slots = []            # slot index in the parent for each open section
    try:
        for ev in events:
            c = stack[-1]
            if ev[0] == "k":
                m.key(c, ev[1], ev[2])
            elif ev[0] in ("o", "e"):
                t = ev[1].lower()
                n = ev[2].lower() if ev[2] else None
                slot = m.find_slot(c, t, n)
                child = Cont(m.S, t, n)
                stack.append(child)
                slots.append(slot)
                if ev[0] == "e":
                    _close(m, stack, slots)
            elif ev[0] == "c":
                if len(stack) == 1:
                    raise OutsideDomain("closer with nothing open")
                _close(m, stack, slots)
            elif ev[0] == "i":
                S = import_component(S, imported, ev[1], packages, package_imports)
                m.S = S
                m.tt = M.type_table(S)
                for c in stack:
                    c.S = S
            else:
                raise OutsideDomain(ev)
        if want_state:
            d.state = tuple(c.state() for c in stack) + (tuple(sorted(imported)),)
            d.open = tuple(c.tname for c in stack[1:])
        while len(stack) > 1:
            _close(m, stack, slots)
        d.tree = m.finish(stack[0])
        if S.handler:
            m.entries.append((kt_basic_key(S.handler), d.tree))
    except _Reject as r:
        d.verdict, d.clause = "R", r.clause
    except _Unspec as u:
        d.verdict, d.clause = "U", u.clause
    d.origins = m.origins
    d.entries = m.entries
    return d


def _close(m, stack, slots):
    child = stack.pop()
    slot = slots.pop()
    value = m.finish(child)
    m.add_section(stack[-1], slot, child.name, value)


def open_stack(S, events):
    """Type names of the containers open after `events` (no verdict)."""
    st = [None]
    for ev in events:
        if ev[0] == "o":
            st.append(ev[1].lower())
        elif ev[0] == "c":
            st.pop()
    return st
