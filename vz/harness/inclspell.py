"""Spellings of the argument of an '%include' line (C06, wave 3).

The same fragment can be referred to from the same includer in many ways.  Two
independent choices:

FORM of the reference AFTER $-expansion (what is resolved against the includer's URL):
  rel   relative path from the includer's directory       sub%20dir/f.conf  ../f.conf  f.conf
  dot   the same with a leading dot segment                ./sub%20dir/f.conf
  abs   absolute path (a reference that starts at the root) /dev/shm/x/p1/f.conf
  url   absolute file: URL                                  file:///dev/shm/x/p1/f.conf
  url1  the same with the short form of the empty authority file:/dev/shm/x/p1/f.conf

VIA: which part of that string is written literally and which comes out of a
substitution (S = H + "/" + N, N = stem + ".conf"; n, m = fresh %define names):
  lit     S                                   (a '$' in S is written '$$')
  pad     S with blanks / tabs around it
  whole   %define n S        $n
  wholeb  %define n S        ${n}
  head    %define n H        $n/N
  headb   %define n H        ${n}/N
  heads   %define n H/       ${n}N
  name    %define m N        H/$m
  stem    %define m stem     H/${m}.conf
  two     %define n H, m N   $n/$m
  env     environment E=H    $(E)/N
  scheme  %define n file:    ${n}<rest of S>        (forms url, url1 only)

Reference semantics (from the property statement and the documentation of
%include / %define): the argument is $-expanded with the definitions known at
that line, THEN resolved against the URL of the including resource (RFC 3986,
5.2).  denotes() below evaluates exactly that with the reference models
vz.ref.subst / vz.ref.urls (no ZConfig code) and is used as a self-check of every
spelling this module produces: the reference must denote the fragment's file.
"""
import os

from vz.ref import subst as RS
from vz.ref import urls as RU

FORMS = ("rel", "dot", "abs", "url", "url1")
VIAS = ("lit", "pad", "whole", "wholeb", "head", "headb", "heads", "name", "stem", "two", "env", "scheme")
DEFINING_VIAS = ("whole", "wholeb", "head", "headb", "heads", "name", "stem", "two", "scheme")
EXT = ".conf"


def applicable(form, via):
    return via != "scheme" or form in ("url", "url1")


def quote(p):
    """URL-quote a path, leaving '/' and '$' (a sub-delimiter, legal in a path segment)."""
    out = []
    for ch in p:
        out.append(ch if ch in "/$" else RU.quote_path(ch))
    return "".join(out)


def reference(form, from_dir, to_dir, name):
    """The expanded reference string S of the given form for file to_dir/name seen from from_dir."""
    if form in ("rel", "dot"):
        rel = os.path.relpath(to_dir, from_dir)
        parts = [] if rel == "." else rel.split(os.sep)
        s = "/".join([quote(x) for x in parts] + [quote(name)])
        return "./" + s if form == "dot" else s
    a = quote(os.path.join(to_dir, name))
    if form == "abs":
        return a
    if form == "url":
        return "file://" + a
    if form == "url1":
        return "file:" + a
    raise ValueError(form)


def esc(s):
    return s.replace("$", "$$")


def spell(via, S, idx):
    """-> (defs, env, arg): defs = [(name, value as written after '%define name ')], env = {NAME: value},
    arg = text after '%include '."""
    n, m, e = "inc%d" % idx, "nam%d" % idx, "VZC06_INC%d" % idx
    if "/" in S:
        H, N = S.rsplit("/", 1)
    else:
        H, N = ".", S               # ./N is the same resource as N
    if not N.endswith(EXT):
        raise ValueError(S)
    stem = N[:-len(EXT)]
    if via == "lit":
        return [], {}, esc(S)
    if via == "pad":
        return [], {}, "\t  " + esc(S) + " \t"
    if via == "whole":
        return [(n, esc(S))], {}, "$" + n
    if via == "wholeb":
        return [(n, esc(S))], {}, "${%s}" % n
    if via == "head":
        return [(n, esc(H))], {}, "$%s/%s" % (n, esc(N))
    if via == "headb":
        return [(n, esc(H))], {}, "${%s}/%s" % (n, esc(N))
    if via == "heads":
        return [(n, esc(H) + "/")], {}, "${%s}%s" % (n, esc(N))
    if via == "name":
        return [(m, esc(N))], {}, "%s/$%s" % (esc(H), m)
    if via == "stem":
        return [(m, esc(stem))], {}, "%s/${%s}%s" % (esc(H), m, EXT)
    if via == "two":
        return [(n, esc(H)), (m, esc(N))], {}, "$%s/$%s" % (n, m)
    if via == "env":
        return [], {e: H}, "$(%s)/%s" % (e, esc(N))
    if via == "scheme":
        if not S.startswith("file:"):
            raise ValueError("scheme spelling needs a file: URL")
        return [(n, "file:")], {}, "${%s}%s" % (n, esc(S[5:]))
    raise ValueError(via)


def expand(text, defs, env):
    r = RS.substitute(text, lambda k: defs.get(k), lambda k: env.get(k))
    if r[0] == RS.SAME:
        return text
    if r[0] == RS.OK:
        return r[1]
    raise ValueError("reference model cannot expand %r: %r" % (text, r))


def denotes(includer_path, arg, defs, env):
    """File-system path the argument denotes when written in the resource includer_path."""
    d = {}
    for k, written in defs:
        d[k.lower()] = expand(written, d, env)
    ref = expand(arg.strip(), d, env)
    url = RU.resolve("file://" + RU.quote_path(includer_path), ref)
    p, problem = RU.pct_decode(RU.parse_ref(url)[2])
    if problem:
        raise ValueError("%r: %s" % (url, problem))
    return p
