"""C10 - schema documents are accepted exactly when they obey the schema language rules.

Engine E3: base documents are rendered from the schema model (rule-satisfying by
construction: the generated family, the rich / C08 / C13 schemas, a composed
document with derived key types, and a component document imported by a schema);
they must load.  For every rule of the statement an edit operator produces a
rule-violating variant; it is applied at EVERY applicable site of every base
document (thorough: every pair of edits at distinct elements) and the edited
document must raise ZConfig.SchemaError from loadSchemaFile.  Rule-preserving edit
operators (applied at every site) must keep the document loadable.
"""
import copy
import io
import itertools
import os
import xml.etree.ElementTree as ET

from vz import core
from vz.gen import schema as M
from vz.harness import load as H
from vz.harness import pkgs

ITEM_TAGS = ("key", "multikey", "section", "multisection")
CONTAINER_TAGS = ("schema", "sectiontype")


def parents(root):
    return {c: p for p in root.iter() for c in p}


def elems(root):
    return list(root.iter())


# ---------------------------------------------------------------------------
# rule-violating operators: (rule id, applicable(elem, parent, root) -> bool, apply(elem, parent, root))

def _types(root):
    return [e for e in root if e.tag in ("sectiontype", "abstracttype")]


def _container_items(cont):
    return [e for e in cont if e.tag in ITEM_TAGS]


def _eff_attr(e):
    if e.get("attribute"):
        return e.get("attribute")
    n = e.get("name")
    if n and n not in ("*", "+"):
        return n.lower().replace("-", "_")
    return None


def op_dup_type(e, p, root):
    p.insert(list(p).index(e) + 1, copy.deepcopy(e))


def op_dup_item(e, p, root):
    p.insert(list(p).index(e) + 1, copy.deepcopy(e))


def op_rename_type_to_other(e, p, root):
    other = [t for t in _types(root) if t is not e][0]
    e.set("name", other.get("name").upper())


def op_same_attribute(e, p, root):
    other = [x for x in _container_items(p) if x is not e and _eff_attr(x)][0]
    e.set("attribute", _eff_attr(other))


def op_inherited_key_name(e, p, root):
    base = [t for t in _types(root) if t.get("name") == e.get("extends")][0]
    k = [x for x in base if x.tag in ("key", "multikey") and x.get("name") != "+"]
    k = copy.deepcopy(k[0])
    # the very same name: a duplicate under every key type
    if "attribute" in k.attrib:
        k.set("attribute", "fresh_attr")
    e.append(k)


def op_inherited_attribute_of(tag):
    """A derived type gets a new key whose attribute= equals the attribute of an item of kind `tag`
    inherited from its base (keys, multikeys, named and unnamed sections, multisections)."""
    def f(e, p, root):
        base = [t for t in _types(root) if t.get("name") == e.get("extends")][0]
        it = [x for x in _container_items(base) if x.tag == tag and _eff_attr(x)][0]
        new = ET.SubElement(e, "key")
        new.set("name", "freshname")
        new.set("attribute", _eff_attr(it))
    return f


def base_has(tag):
    def f(e, p, r):
        return is_type(e) and e.get("extends") and any(
            x.tag == tag and _eff_attr(x) for t in _types(r) if t.get("name") == e.get("extends")
            for x in _container_items(t))
    return f


def op_use_before_definition(e, p, root):
    # move the definition of the type this element refers to behind everything else
    ref = e.get("type") or e.get("extends") or e.get("implements")
    t = [x for x in _types(root) if x.get("name", "").lower() == ref.lower()][0]
    root.remove(t)
    root.append(t)


def set_attr(name, value):
    def f(e, p, root):
        e.set(name, value)
    return f


def del_attr(name):
    def f(e, p, root):
        del e.attrib[name]
    return f


def op_unkeyed_default(e, p, root):
    d = ET.SubElement(e, "default")
    d.text = "x"


def op_keyed_default(e, p, root):
    d = ET.SubElement(e, "default")
    d.set("key", "k")
    d.text = "x"


def op_colliding_defaults(e, p, root):
    for k in ("Dup", "dup"):
        d = ET.SubElement(e, "default")
        d.set("key", k)
        d.text = "x"


def op_nest_same(e, p, root):
    e.append(copy.deepcopy(e))


def op_unknown_child(e, p, root):
    ET.SubElement(e, "bogus")


def op_stray_text(e, p, root):
    e.text = (e.text or "") + "stray text"


def op_nested_schema(e, p, root):
    ET.SubElement(e, "schema")


def op_two_descriptions(e, p, root):
    for i in range(2):
        d = ET.Element("description")
        d.text = "d%d" % i
        e.insert(0, d)


def _base_has_case_colliding_defaults(e, root):
    base = [t for t in _types(root) if t.get("name") == e.get("extends")]
    if not base or (base[0].get("keytype") or "basic-key") == "basic-key":
        return False
    for k in base[0]:
        if k.tag == "key" and k.get("name") == "+":
            keys = [d.get("key") for d in k if d.tag == "default"]
            if len(set(x.lower() for x in keys)) < len(keys):
                return True
    return False


def is_type(e):
    return e.tag == "sectiontype"


def abstract_names(root):
    return [t.get("name") for t in root if t.tag == "abstracttype"]


def concrete_names(root):
    return [t.get("name") for t in root if t.tag == "sectiontype"]


def refers_to_earlier_type(e, p, root):
    ref = e.get("type") if e.tag in ("section", "multisection") else (e.get("extends") or e.get("implements")
                                                                       if e.tag == "sectiontype" else None)
    if not ref:
        return False
    ts = [x for x in _types(root) if x.get("name", "").lower() == ref.lower()]
    if not ts:
        return False
    # only meaningful when the reference is not already the last element of the document
    return list(root)[-1] is not ts[0] and (p is root or ts[0] is not p)


VIOLATING = [
    ("duplicate-type-name", lambda e, p, r: e.tag in ("sectiontype", "abstracttype") and p is r, op_dup_type),
    ("duplicate-type-name-other-kind", lambda e, p, r: e.tag in ("sectiontype", "abstracttype") and p is r and len(_types(r)) > 1,
     op_rename_type_to_other),
    ("duplicate-item", lambda e, p, r: e.tag in ITEM_TAGS, op_dup_item),
    ("duplicate-attribute", lambda e, p, r: e.tag in ITEM_TAGS and any(x is not e and _eff_attr(x) for x in _container_items(p)),
     op_same_attribute),
    ("duplicate-inherited-key-name",
     lambda e, p, r: is_type(e) and e.get("extends") and not e.get("keytype") and any(
         x.tag in ("key", "multikey") and x.get("name") != "+" for t in _types(r) if t.get("name") == e.get("extends") for x in t),
     op_inherited_key_name),
    ("duplicate-inherited-attribute-of-key", base_has("key"), op_inherited_attribute_of("key")),
    ("duplicate-inherited-attribute-of-multikey", base_has("multikey"), op_inherited_attribute_of("multikey")),
    ("duplicate-inherited-attribute-of-section", base_has("section"), op_inherited_attribute_of("section")),
    ("duplicate-inherited-attribute-of-multisection", base_has("multisection"),
     op_inherited_attribute_of("multisection")),
    ("type-used-before-definition", refers_to_earlier_type, op_use_before_definition),
    ("extends-abstract", lambda e, p, r: is_type(e) and abstract_names(r) and not e.get("extends"),
     lambda e, p, r: e.set("extends", abstract_names(r)[0])),
    ("extends-undefined", lambda e, p, r: is_type(e), set_attr("extends", "nosuchtype")),
    ("implements-concrete", lambda e, p, r: is_type(e) and [n for n in concrete_names(r) if n != e.get("name")] and
     list(r).index(e) > min(list(r).index(t) for t in r if t.tag == "sectiontype"),
     lambda e, p, r: e.set("implements", [t.get("name") for t in list(r)[:list(r).index(e)] if t.tag == "sectiontype"][0])),
    ("implements-undefined", lambda e, p, r: is_type(e), set_attr("implements", "nosuchtype")),
    ("star-as-key-name", lambda e, p, r: e.tag in ("key", "multikey"), set_attr("name", "*")),
    ("wildcard-key-without-attribute", lambda e, p, r: e.tag in ("key", "multikey") and e.get("name") == "+",
     del_attr("attribute")),
    ("wildcard-section-without-attribute", lambda e, p, r: e.tag in ("section", "multisection") and
     e.get("name") in ("*", "+") and e.get("attribute"), del_attr("attribute")),
    ("multisection-fixed-name", lambda e, p, r: e.tag == "multisection", set_attr("name", "fixedname")),
    ("default-on-required-key", lambda e, p, r: e.tag == "key" and e.get("required") == "yes" and e.get("name") != "+",
     set_attr("default", "x")),
    ("required-on-key-with-default", lambda e, p, r: e.tag == "key" and e.get("default") is not None,
     set_attr("required", "yes")),
    ("default-attribute-on-multikey", lambda e, p, r: e.tag == "multikey", set_attr("default", "x")),
    ("unkeyed-default-on-wildcard", lambda e, p, r: e.tag in ("key", "multikey") and e.get("name") == "+", op_unkeyed_default),
    ("keyed-default-on-plain-multikey", lambda e, p, r: e.tag == "multikey" and e.get("name") != "+", op_keyed_default),
    ("colliding-wildcard-defaults", lambda e, p, r: e.tag == "key" and e.get("name") == "+" and
     (p.get("keytype") or "basic-key") == "basic-key" and not p.get("extends"), op_colliding_defaults),
    ("derived-keytype-makes-inherited-defaults-collide",
     lambda e, p, r: is_type(e) and e.get("extends") and _base_has_case_colliding_defaults(e, r),
     set_attr("keytype", "basic-key")),
    ("malformed-key-name", lambda e, p, r: e.tag in ("key", "multikey") and e.get("name") != "+" and
     (p.get("keytype") or "basic-key") == "basic-key" and not p.get("extends"), set_attr("name", "1bad")),
    ("empty-name", lambda e, p, r: e.tag in ("key", "multikey", "sectiontype", "abstracttype"), set_attr("name", "")),
    ("malformed-type-name", lambda e, p, r: e.tag in ("sectiontype", "abstracttype"), set_attr("name", "1bad")),
    ("malformed-attribute", lambda e, p, r: e.tag in ITEM_TAGS, set_attr("attribute", "1bad")),
    ("attribute-with-hyphen", lambda e, p, r: e.tag in ITEM_TAGS, set_attr("attribute", "a-b")),
    ("reserved-attribute-prefix", lambda e, p, r: e.tag in ITEM_TAGS, set_attr("attribute", "getSectionThing")),
    ("malformed-handler", lambda e, p, r: e.tag in ITEM_TAGS + ("schema",), set_attr("handler", "1bad")),
    ("required-not-yes-no", lambda e, p, r: e.tag in ITEM_TAGS, set_attr("required", "true")),
    ("required-upper-case", lambda e, p, r: e.tag in ITEM_TAGS, set_attr("required", "YES")),
    ("unknown-datatype", lambda e, p, r: e.tag in ("key", "multikey", "sectiontype", "schema"),
     set_attr("datatype", "nosuchdatatype")),
    ("unknown-keytype", lambda e, p, r: e.tag in ("sectiontype", "schema"), set_attr("keytype", "nosuchdatatype")),
    ("section-without-type", lambda e, p, r: e.tag in ("section", "multisection"), del_attr("type")),
    ("section-of-unknown-type", lambda e, p, r: e.tag in ("section", "multisection"), set_attr("type", "nosuchtype")),
    ("element-nested-in-itself", lambda e, p, r: e.tag in ITEM_TAGS + ("sectiontype", "abstracttype"), op_nest_same),
    ("unknown-element", lambda e, p, r: e.tag in ITEM_TAGS + CONTAINER_TAGS + ("abstracttype",), op_unknown_child),
    ("stray-text", lambda e, p, r: e.tag in ("section", "multisection", "abstracttype") + CONTAINER_TAGS or
     (e.tag in ("key", "multikey") and len(e) == 0), op_stray_text),
    ("nested-schema-element", lambda e, p, r: e.tag in CONTAINER_TAGS, op_nested_schema),
    ("malformed-prefix", lambda e, p, r: e.tag in CONTAINER_TAGS, set_attr("prefix", "1.bad")),
    ("relative-prefix-without-outer", lambda e, p, r: e.tag == "schema", set_attr("prefix", ".rel")),
]


def op_rename_fresh(e, p, root):
    e.set("name", "zfresh")


def op_add_description(e, p, root):
    d = ET.Element("description")
    d.text = "text < with & markup"
    e.insert(0, d)


def op_add_example_meta(e, p, root):
    for tag in ("example", "metadefault"):
        d = ET.Element(tag)
        d.text = "  some text  "
        e.insert(0, d)


PRESERVING = [
    ("rename-key-to-fresh-name", lambda e, p, r: e.tag in ("key", "multikey") and e.get("name") != "+", op_rename_fresh),
    ("fresh-attribute", lambda e, p, r: e.tag in ITEM_TAGS, set_attr("attribute", "zfresh_attr")),
    ("required-no", lambda e, p, r: e.tag in ITEM_TAGS and e.get("required") is None, set_attr("required", "no")),
    ("handler-added", lambda e, p, r: e.tag in ITEM_TAGS + ("schema",), set_attr("handler", "Some-Handler.1")),
    ("default-on-optional-key", lambda e, p, r: e.tag == "key" and e.get("name") != "+" and e.get("required") != "yes"
     and (e.get("datatype") in (None, "string")), set_attr("default", "")),
    ("description-added", lambda e, p, r: e.tag in ITEM_TAGS + ("sectiontype", "abstracttype", "schema"), op_add_description),
    ("example-metadefault-added", lambda e, p, r: e.tag in ITEM_TAGS, op_add_example_meta),
    ("explicit-null-datatype", lambda e, p, r: e.tag == "sectiontype" and not e.get("datatype") and not e.get("extends"),
     set_attr("datatype", "null")),
    ("upper-case-type-reference", lambda e, p, r: e.tag in ("section", "multisection"),
     lambda e, p, r: e.set("type", e.get("type").upper())),
    ("prefix-added", lambda e, p, r: e.tag in CONTAINER_TAGS, set_attr("prefix", "vz.harness")),
]


# ---------------------------------------------------------------------------

def base_documents(tier):
    docs = []
    env = M.type_env()
    for lab, items in M.selections(1, full=True):
        for pl in (0, 1, 2):
            S, _ = M.place(items, pl, env)
            docs.append(("+".join(lab) + "@%d" % pl, M.render(S)))
    sel2 = M.selections(2)
    for i, (lab, items) in enumerate(sel2):
        if len(items) == 2 and i % (9 if tier == "quick" else 2) == 0:
            S, _ = M.place(items, 1, env)
            docs.append(("+".join(lab) + "@1", M.render(S)))
    for name, S, _ in M.rich_schemas():
        docs.append((name, M.render(S)))
    from vz.props import c08, c13
    docs.append(("c08", M.render(c08.schema())))
    docs.append(("c13", M.render(c13.schema_model())))
    base = M.SType("idbase", (M.Key("+", attribute="opts", default=(("Da", "1"), ("da", "2"))), M.Key("Kx", attribute="kx_upper"), M.Key("kx")),
                   keytype="identifier")
    derived = M.SType("idderived", (M.Key("more"),), extends="idbase")
    other = M.SType("plain", (M.MultiKey("+", attribute="m", defaults=(("a", "1"), ("A", "2"))),), keytype="basic-key")
    comp = M.Schema(types=(M.AType("abs"), base, derived, other,
                           M.SType("impl", (M.Key("k", "integer", default="1"),), implements="abs", extends=None)),
                    items=(M.Sect("*", "idderived", attribute="ds", multi=True), M.Sect("n1", "abs"),
                           M.Key("top", required=True)), prefix="vz.harness", keytype="identifier")
    docs.append(("composed", M.render(comp)))
    # section types whose key type differs from the schema's, each with a single-valued wildcard key
    bk_in_id = M.SType("bkwild", (M.Key("+", attribute="opts", default=(("a", "1"), ("b", "2"))),), keytype="basic-key")
    id_in_bk = M.SType("idwild", (M.Key("+", attribute="opts", default=(("Da", "1"), ("da", "2"))),), keytype="identifier")
    docs.append(("keytypes-id-schema", M.render(M.Schema(types=(bk_in_id,), keytype="identifier",
                                                         items=(M.Sect("*", "bkwild", attribute="s"),)))))
    docs.append(("keytypes-bk-schema", M.render(M.Schema(types=(id_in_bk, bk_in_id),
                                                         items=(M.Sect("*", "idwild", attribute="s"),
                                                                M.Sect("*", "bkwild", attribute="t"))))))
    # a base type holding one item of every kind, a derived type and a second-level derived type
    allk = M.SType("allkinds", (M.Key("bk1"), M.MultiKey("bm1"), M.Key("+", attribute="bw"),
                                M.Sect("bn1", "l1"), M.Sect("*", "l1", attribute="bs"),
                                M.Sect("+", "l1", attribute="bms", multi=True)))
    d1 = M.SType("derived1", (M.Key("dk1"),), extends="allkinds")
    d2 = M.SType("derived2", (M.MultiKey("dm2"),), extends="derived1")
    docs.append(("derived-all-kinds", M.render(M.Schema(types=(M.SType("l1", (M.Key("lk"),)), allk, d1, d2),
                                                         items=(M.Sect("*", "derived2", attribute="ds", multi=True),)))))
    return docs


def observe(xml, loader=None):
    import ZConfig
    try:
        ZConfig.loadSchemaFile(io.StringIO(xml), "file:///v/schema.xml")
        return ("accepted",)
    except ZConfig.SchemaError as e:
        return ("schema-error", str(e)[:120])
    except ZConfig.ConfigurationError as e:
        return ("other-config-error", type(e).__name__, str(e)[:120])
    except Exception as e:
        return ("internal", core.exc_desc(e))


def site_depth(e, pm, root):
    d = 0
    while e is not root:
        e = pm[e]
        d += 1
    return d


def apply_at(xml, ops):
    """ops = [(operator tuple, element index)] applied in order on a fresh tree."""
    root = ET.fromstring(xml)
    es = elems(root)
    pm = parents(root)
    targets = [(op, es[i]) for op, i in ops]
    for op, e in targets:
        p = pm.get(e, root) if e is not root else root
        op[2](e, p, root)
    return ET.tostring(root, encoding="unicode")


def explore_doc(name, xml, acc, tier, wrap=None):
    """wrap(xml_of_edited_doc) -> the document to load (identity for schemas; for component
    documents it writes component.xml and returns the importing schema)."""
    wrap = wrap or (lambda x: x)
    o = observe(wrap(xml))
    acc.ev()
    acc.states += 1
    case0 = {"document": name, "xml": xml}
    if o[0] != "accepted":
        acc.violation("rule-abiding-document-refused", case0, o, "accepted", tags={"kind": "positive", "edit": "none"})
        return
    root = ET.fromstring(xml)
    es = elems(root)
    pm = parents(root)
    sites = []
    for i, e in enumerate(es):
        p = pm.get(e, root)
        for op in VIOLATING:
            try:
                ok = op[1](e, p, root)
            except (IndexError, ValueError, TypeError, AttributeError):
                ok = False
            if ok:
                sites.append((op, i))
    for op, i in sites:
        edited = apply_at(xml, [(op, i)])
        o = observe(wrap(edited))
        acc.ev()
        acc.transitions += 1
        deep = site_depth(es[i], pm, root) >= 2 or (es[i].tag == "sectiontype" and es[i].get("extends")) or wrap("") != ""
        if deep:
            acc.nt()
        acc.cls("violating:" + o[0])
        acc.clause(op[0])
        case = {"document": name, "xml": xml, "edit": op[0], "site": i, "site_tag": es[i].tag, "edited": edited}
        acc.sample(lambda: dict(case, outcome=o[0]))
        if o[0] != "schema-error":
            acc.violation("rule-violation-not-reported-as-schema-error", case, o, "ZConfig.SchemaError from loadSchemaFile",
                          tags={"kind": "negative", "edit": op[0], "outcome": o[0], "site_tag": es[i].tag})
    for i, e in enumerate(es):
        p = pm.get(e, root)
        for op in PRESERVING:
            try:
                ok = op[1](e, p, root)
            except (IndexError, ValueError, TypeError, AttributeError):
                ok = False
            if not ok:
                continue
            edited = apply_at(xml, [(op, i)])
            o = observe(wrap(edited))
            acc.ev()
            acc.transitions += 1
            acc.cls("preserving:" + o[0])
            if site_depth(e, pm, root) >= 2:
                acc.nt()
            case = {"document": name, "xml": xml, "edit": op[0], "site": i, "site_tag": e.tag, "edited": edited}
            if o[0] != "accepted":
                acc.violation("rule-abiding-document-refused", case, o, "accepted",
                              tags={"kind": "positive", "edit": op[0], "site_tag": e.tag})
    if tier != "quick":
        # pairs of violating edits at distinct elements
        for (op1, i), (op2, j) in itertools.combinations(sites, 2):
            if i == j or (op1[0], op2[0]) in PAIR_SKIP or _related(es, pm, i, j):
                continue
            try:
                edited = apply_at(xml, [(op1, i), (op2, j)])
            except (IndexError, ValueError):
                continue
            o = observe(wrap(edited))
            acc.ev()
            acc.transitions += 1
            acc.nt()
            acc.cls("violating-pair:" + o[0])
            if o[0] != "schema-error":
                acc.violation("rule-violation-not-reported-as-schema-error",
                              {"document": name, "xml": xml, "edit": [op1[0], op2[0]], "site": [i, j], "edited": edited},
                              o, "ZConfig.SchemaError from loadSchemaFile",
                              tags={"kind": "negative-pair", "edit": "%s+%s" % (op1[0], op2[0]), "outcome": o[0]})
    acc.traces = acc.transitions


PAIR_SKIP = set()


def _related(es, pm, i, j):
    """True if one site is an ancestor of the other (an edit may remove or move the other's site)."""
    a, b = es[i], es[j]
    x = b
    while x in pm:
        x = pm[x]
        if x is a:
            return True
    x = a
    while x in pm:
        x = pm[x]
        if x is b:
            return True
    return False


def shard(arg, acc):
    kind = arg[0]
    if kind == "schema":
        _, name, xml, tier = arg
        explore_doc(name, xml, acc, tier)
    else:
        _, tier = arg
        P = pkgs.Packages()
        try:
            env = M.type_env()
            extra = M.SType("cwild", (M.Key("+", attribute="opts", default=(("Da", "1"),)), M.MultiKey("cm", "integer", defaults=("1",))))
            real = P.add_component("comp", list(env) + [extra])
            path = os.path.join(P.dir, real, "component.xml")
            comp_xml = open(path).read()
            schema = '<schema>\n  <import package="%s"/>\n  <multisection type="l1" name="*" attribute="ls"/>\n</schema>\n' % real

            def wrap(x):
                if x == "":
                    return "component"
                with open(path, "w") as f:
                    f.write(x)
                return schema
            # operators see a <component> root: treat it like <schema> for type-level edits
            explore_doc("component", comp_xml, acc, tier, wrap)
        finally:
            P.close()
    return acc


def run(tier):
    docs = base_documents(tier)
    run = core.Run(
        "C10", tier, "model_checking",
        rule="base documents (%d rendered schemas of the generated family, rich / C08 / C13 schemas, a composed document "
             "with derived key types and prefixes, and a component document imported by a schema) must load; %d "
             "rule-violating edit operators (one or more per rule of the statement) applied at every applicable "
             "element of every base document%s must raise ZConfig.SchemaError from loadSchemaFile; %d rule-preserving "
             "operators at every site must keep the document loadable.  states = base documents, transitions = edited "
             "documents loaded.  Non-trivial = edit site below schema top level (inside a section type, a derived "
             "type or the component)."
             % (len(docs), len(VIOLATING), "" if tier == "quick" else ", and every pair of violating edits at unrelated elements",
                len(PRESERVING)),
        bounds={"documents": len(docs) + 1, "violating_operators": [o[0] for o in VIOLATING],
                "preserving_operators": [o[0] for o in PRESERVING], "pairs": tier != "quick"},
        assumptions=["each violating operator breaks a rule of the statement by construction at the site it is applied to",
                     "not generated (unspecified): <default> elements inside a plain <key>, required with <default> "
                     "elements on multikey / wildcard, malformed XML, a second <description> (cardinality is not "
                     "'nesting'), well-formed dotted datatype names that cannot be imported (Registry.get documents an "
                     "unspecified exception)"])
    shards = [("schema", n, x, tier) for n, x in docs] + [("component", tier)]
    core.pmap(shard, shards, run.acc, shard_budget=3000.0)
    a = run.acc
    missing = [o[0] for o in VIOLATING if not a.clauses.get(o[0])]
    run.require(not missing, "operators never applied: %s" % missing)
    run.require(a.classes.get("preserving:accepted", 0) > 500, "few rule-preserving edits")
    return run


def replay(body):
    case = body["case"]
    rc = 0
    for _ in range(2):
        doc = case.get("edited") or case["xml"]
        o = observe(doc)
        print(doc)
        print("observed:", o, " expected:", body["expected"])
        want_accept = body["kind"] == "rule-abiding-document-refused"
        if (o[0] == "accepted") != want_accept or (not want_accept and o[0] != "schema-error"):
            rc = 1
    if case.get("document") == "component":
        print("(component documents are re-checked by ./check C10: they need the generated package)")
    return rc
