"""C07 - user input can only produce configuration errors, never internal exceptions.

Engine E3 (deviation-bounded) + graph enumeration:
 (a) every single character-, token- and line-level mutation of every seed text
     (accepted corpus texts and a long hand-written text), pairs for short seeds;
 (b) every single mutation of every valid override specifier of seeds with sections;
 (c) all 512 include graphs over three virtual resources (self-loops and cycles
     included), include lines at top level and inside a section;
 (d) ZConfig.validator.main in-process on 1..3 files drawn from (a);
 (f) ZConfig.validator.main on every ordered sequence (with repetition) of files
     over an alphabet of file kinds = {state-carrying head directive} x {body
     whose validity depends on that state} x {head first, body first}: the
     verdict of a file may not depend on the files before it; every ordered
     pair also through one shared ConfigLoader object (error family only).
Oracle (invariant): whatever escapes is in the ZConfig.ConfigurationError family;
validator status is 0/1 as the files are valid/invalid with one message per
invalid file.
"""
import contextlib
import io
import itertools
import os
import shutil
import sys
import tempfile
import warnings

from vz import core
from vz.gen import corpus as C
from vz.gen import schema as M
from vz.harness import load as H
from vz.props import c14

META = "<>/%#()$= "
EXTRA = "-.1\u00e9\t"      # out-of-vocabulary characters (not grammar metacharacters)
JUNK_LINES = ["%define $e", "%define ${v1} y", "%define $e$e", "<>", "</>", "<", ">", "</", "%", "$", "(", ")", "<//>", "< >", "%define", "% x", "<a/", "k $", "=",
              "<a b c>", "</a b>", "%include", "%import", "# c", "1/2=3"]


def mutations(text):
    """Yield (label, mutated text) for every single mutation."""
    n = len(text)
    for i in range(n):
        if text[i] == "\n":
            continue
        yield "del-char", text[:i] + text[i + 1:]
        yield "dup-char", text[:i] + text[i] + text[i:]
        if i + 1 < n and text[i] != text[i + 1] and text[i + 1] != "\n":
            yield "swap-char", text[:i] + text[i + 1] + text[i] + text[i + 2:]
    for i in range(n + 1):
        for c in META + EXTRA:
            yield "ins-" + c, text[:i] + c + text[i:]
    lines = text.split("\n")
    if lines and lines[-1] == "":
        lines = lines[:-1]
    for i in range(len(lines) + 1):
        for j in JUNK_LINES:
            yield "ins-line", "\n".join(lines[:i] + [j] + lines[i:]) + "\n"
    for i in range(len(lines)):
        yield "del-line", "\n".join(lines[:i] + lines[i + 1:]) + "\n"
        yield "dup-line", "\n".join(lines[:i] + [lines[i]] + lines[i:]) + "\n"
        if i + 1 < len(lines):
            yield "swap-line", "\n".join(lines[:i] + [lines[i + 1], lines[i]] + lines[i + 2:]) + "\n"
        toks = lines[i].split(" ")
        for j in range(len(toks)):
            if toks[j] == "":
                continue
            for lab, nt in (("del-token", toks[:j] + toks[j + 1:]), ("dup-token", toks[:j] + [toks[j]] + toks[j:])):
                yield lab, "\n".join(lines[:i] + [" ".join(nt)] + lines[i + 1:]) + "\n"
            if j + 1 < len(toks):
                nt = toks[:j] + [toks[j + 1], toks[j]] + toks[j + 2:]
                yield "swap-token", "\n".join(lines[:i] + [" ".join(nt)] + lines[i + 1:]) + "\n"


def classify(r):
    if r[0] == "ok":
        return "accepted"
    if r[0] == "rejected":
        return "rejected:" + type(r[1]).__name__
    return "internal"


def check_text(sch, text, acc, case, base_class):
    acc.current = text
    r = H.load(sch, text)
    acc.ev()
    cl = classify(r)
    if cl != base_class:
        acc.nt()
    acc.cls(cl.split(":")[0])
    acc.sample(lambda: dict(case, text=text, outcome=cl))
    if r[0] == "internal":
        d = core.exc_desc(r[1])
        acc.violation("internal-error-escapes", dict(case, text=text), d, "ZConfig.ConfigurationError family",
                      tags={"kind": "internal-error", "exc": d["class"], "where": d["where"], "input": "text"})
    return cl


LONG_SEED_SCHEMA = None


def long_seed():
    S = M.rich_schemas()[0][1]
    text = """# a long seed
%define v1 x
%define e
%define w $e
m1 ${e}z$w
k2 $v1
k1 7
m1 a  b
m1 ${v1}y
<outer>
  k1 v
  zz 1
  zz 2
  <inner n1>
    k1 8
    m1 v
    <l1 n1>
      lk q
    </l1>
    <i1 a>
      ik v
    </i1>
    <i2/>
  </inner>
  <inner N2/>
  <l1>
  </l1>
  extra $$v
</outer>
<OUTER second>
  k1 w
</outer>
<inner n1>
  m1 $$
</inner>
%import ZConfig.components.basic
"""
    return S, text


def shard_a(member, acc):
    kind, tier = member[0], member[-1]
    if kind == "long":
        S, text = long_seed()
        xml = M.render(S)
        sch = H.load_schema(xml)
        mid = {"name": "long", "schema": xml}
        base_r = H.load(sch, text)
        base = classify(base_r)
        if base == "internal":
            # the seed itself is user input: an internal error on it is a violation, not a broken harness
            if member[1] == 0:
                d = core.exc_desc(base_r[1])
                acc.violation("internal-error-escapes", {"member": mid, "seed": "long", "mutation": "none", "text": text},
                              d, "ZConfig.ConfigurationError family",
                              tags={"kind": "internal-error", "exc": d["class"], "where": d["where"], "input": "text"})
            base = "accepted"
        elif base != "accepted":
            raise core.HarnessError("long seed not accepted: %s" % (base_r[1],))
        lo, hi = member[1], member[2]
        muts = list(mutations(text))
        for lab, t in muts[lo:hi]:
            check_text(sch, t, acc, {"member": mid, "seed": "long", "mutation": lab}, base)
        acc.states += 1 if lo == 0 else 0
        acc.transitions += len(muts[lo:hi])
        return acc
    _, name, S, root, cdepth, lean = member[:6]
    xml = M.render(S)
    sch = H.load_schema(xml)
    mid = {"name": name, "schema": xml}
    n = 0
    cap = 8 if tier == "quick" else 24
    covered_paths = set()
    for events, d in C.nodes(S, root, cdepth, lean):
        if d.verdict != "A" or len(events) < 2:
            continue
        text = H.render_events(events)
        if len(text.split("\n")) > 9:
            continue
        n += 1
        if n > cap:
            # beyond the cap a seed is used for the override part (b) only, and only if it holds a section
            # at a type path no earlier seed had (so that every key of every reachable section type, at
            # every depth, receives its unconvertible override values)
            if not (type_paths(events) - covered_paths):
                continue
            overrides_of_seed(S, sch, mid, events, text, acc, tier)
            covered_paths |= type_paths(events)
            acc.extra["override_only_seeds"] += 1
            continue
        base = classify(H.load(sch, text))
        acc.states += 1
        seen = set()
        for lab, t in mutations(text):
            if t in seen:
                continue
            seen.add(t)
            check_text(sch, t, acc, {"member": mid, "seed": text, "mutation": lab}, base)
            acc.transitions += 1
        if tier != "quick" and len(text.split("\n")) <= 5 and n <= 12:
            firsts = sorted(seen)
            for t1 in firsts[::19]:
                for lab, t2 in mutations(t1):
                    if t2 in seen:
                        continue
                    seen.add(t2)
                    check_text(sch, t2, acc, {"member": mid, "seed": text, "mutation": "pair:" + lab}, base)
                    acc.transitions += 1
        # (b) override specifiers of this seed and their single mutations
        tpaths = type_paths(events)
        fresh_path = bool(tpaths - covered_paths)
        if fresh_path or n <= 2:
            # (a2) every schema identifier in every line role, at every line position of this seed
            for lab, t in role_line_insertions(S, text):
                if t not in seen:
                    seen.add(t)
                    check_text(sch, t, acc, {"member": mid, "seed": text, "mutation": lab}, base)
                    acc.transitions += 1
                    acc.extra["role_line_insertions"] += 1
        if tpaths and (fresh_path or n <= (4 if tier == "quick" else 12)):
            covered_paths |= tpaths
            overrides_of_seed(S, sch, mid, events, text, acc, tier)
    return acc


def role_lines(S):
    """Every identifier of the schema (key names, section-slot names, attribute names, type names - abstract ones
    included) in every syntactic role of a configuration line: as a key, as a section type, as a section name
    under every concrete type, as a closer."""
    names = []
    types = []
    for t in S.types:
        types.append(t.name)
        names.append(t.name)
    conts = [S.items] + [t.items for t in S.types if isinstance(t, M.SType)]
    for items in conts:
        for it in items:
            for n in (it.name, getattr(it, "attribute", None)):
                if n and n not in ("*", "+"):
                    names.append(n)
    names = sorted(set(names))
    out = []
    for n in names:
        out += ["%s v" % n, "%s" % n, "%s 7" % n.upper(), "<%s>" % n, "<%s/>" % n, "</%s>" % n, "<%s x/>" % n]
        for t in types:
            out.append("<%s %s/>" % (t, n))
            out.append("<%s %s>" % (t, n))
    seen = set()
    return [l for l in out if not (l in seen or seen.add(l))]


def role_line_insertions(S, text):
    lines = text.split("\n")
    if lines and lines[-1] == "":
        lines = lines[:-1]
    for i in range(len(lines) + 1):
        for j in role_lines(S):
            yield "ins-role-line", "\n".join(lines[:i] + [j] + lines[i:]) + "\n"


def type_paths(events):
    """Set of section-type paths (tuples of lower-cased type names) of the sections in an event list."""
    out, st = set(), []
    for e in events:
        if e[0] in ("o", "e"):
            p = tuple(st) + (e[1].lower(),)
            out.add(p)
            if e[0] == "o":
                st.append(e[1].lower())
        elif e[0] == "c" and st:
            st.pop()
    return out


def overrides_of_seed(S, sch, mid, events, text, acc, tier):
    specs = [s for s in c14.spec_alphabet(S, events)]
    tried = set()
    good = [s for s in specs if "/" in s][:6]
    for a, b in itertools.product(good, repeat=2):
        r = H.load(sch, text, overrides=[a, b])
        acc.ev()
        acc.transitions += 1
        acc.cls("override-" + classify(r).split(":")[0])
        if r[0] == "internal":
            dd = core.exc_desc(r[1])
            acc.violation("internal-error-escapes", {"member": mid, "text": text, "overrides": [a, b]},
                          dd, "ZConfig.ConfigurationError family",
                          tags={"kind": "internal-error", "exc": dd["class"], "where": dd["where"],
                                "input": "override"})
    for s in specs:
        for cand in [s] + [m for _, m in spec_mutations(s)]:
            if cand in tried:
                continue
            tried.add(cand)
            r = H.load(sch, text, overrides=[cand])
            acc.ev()
            acc.transitions += 1
            cl = classify(r)
            acc.cls("override-" + cl.split(":")[0])
            if cand != s:
                acc.nt()
            if r[0] == "internal":
                dd = core.exc_desc(r[1])
                acc.violation("internal-error-escapes", {"member": mid, "text": text, "overrides": [cand]},
                              dd, "ZConfig.ConfigurationError family",
                              tags={"kind": "internal-error", "exc": dd["class"], "where": dd["where"],
                                    "input": "override"})


def spec_mutations(s):
    for i in range(len(s)):
        yield "del", s[:i] + s[i + 1:]
        yield "dup", s[:i] + s[i] + s[i:]
    for i in range(len(s) + 1):
        for c in "=/$ <%1-.":
            yield "ins", s[:i] + c + s[i:]


# ---------------------------------------------------------------------------
# (b2) overrides against a purpose-built schema: an integer key, a boolean key and a wildcard integer key at
# every depth 0..3, sections in both spellings, key types basic-key and identifier

DEEP_SCHEMA = """<schema>
  <sectiontype name="leaf">
    <key name="num" datatype="integer"/>
    <key name="flag" datatype="boolean"/>
  </sectiontype>
  <sectiontype name="inner">
    <key name="num" datatype="integer"/>
    <section type="leaf" name="*" attribute="leaf"/>
    <multisection type="leaf" name="+" attribute="leaves"/>
  </sectiontype>
  <sectiontype name="outer" keytype="identifier">
    <key name="num" datatype="integer"/>
    <multikey name="+" attribute="extra" datatype="integer"/>
    <section type="inner" name="*" attribute="inner"/>
  </sectiontype>
  <key name="num" datatype="integer"/>
  <key name="s"/>
  <section type="outer" name="*" attribute="outer"/>
  <multisection type="outer" name="+" attribute="outers"/>
</schema>
"""


def deep_texts():
    """Texts over the deep schema: each nesting level in long / short spelling, key present / absent."""
    out = []
    for leaf in ("", "<leaf/>", "<leaf>\n</leaf>", "<leaf>\nnum 1\n</leaf>", "<leaf n1/>", "<leaf n1>\nflag on\n</leaf>"):
        for inner in ("none", "short", "long", "long+num"):
            if inner == "none" and leaf:
                continue
            if inner == "short" and leaf:
                continue
            ib = {"none": "", "short": "<inner/>", "long": "<inner>\n%s\n</inner>" % leaf,
                  "long+num": "<inner>\nnum 2\n%s\n</inner>" % leaf}[inner]
            for outer in ("short", "long", "long+num", "named"):
                if outer == "short" and ib:
                    continue
                ob = {"short": "<outer/>", "long": "<outer>\n%s\n</outer>" % ib,
                      "long+num": "<outer>\nnum 3\nzz 4\n%s\n</outer>" % ib,
                      "named": "<outer nm>\n%s\n</outer>" % ib}[outer]
                t = "num 5\n%s\n" % ob
                out.append("\n".join(l for l in t.split("\n") if l) + "\n")
    return sorted(set(out))


def deep_specs():
    paths = ["", "outer/", "OUTER/", "nm/", "outer/inner/", "outer/INNER/", "outer/inner/leaf/", "outer/inner/n1/",
             "outer/inner/LEAF/", "nosuch/", "outer/nosuch/", "outer/inner/nosuch/", "inner/", "leaf/"]
    keys = ["num", "NUM", "flag", "zz", "nosuch", "1x", "a-b", "s"]
    vals = ["5", "abc", "", "1.5", "$x", "on", "5 6"]
    return [p + k + "=" + v for p in paths for k in keys for v in vals]


def shard_b2(arg, acc):
    ti, tier = arg
    sch = H.load_schema(DEEP_SCHEMA)
    text = deep_texts()[ti]
    base = H.load(sch, text)
    if base[0] != "ok":
        raise core.HarnessError("deep override text not accepted: %r: %s" % (text, base[1]))
    specs = deep_specs()
    mid = {"name": "deep-overrides", "schema": DEEP_SCHEMA}

    def one(ovr, nontrivial):
        acc.current = (text, ovr)
        r = H.load(sch, text, overrides=ovr)
        acc.ev()
        acc.transitions += 1
        if nontrivial:
            acc.nt()
        cl = classify(r)
        acc.cls("deep-override-" + cl)
        acc.sample(lambda: {"member": "deep-overrides", "text": text, "overrides": ovr, "outcome": cl})
        if r[0] == "internal":
            dd = core.exc_desc(r[1])
            acc.violation("internal-error-escapes", {"member": mid, "text": text, "overrides": ovr},
                          dd, "ZConfig.ConfigurationError family",
                          tags={"kind": "internal-error", "exc": dd["class"], "where": dd["where"],
                                "input": "override"})
    acc.states += 1
    tried = set()
    for s in specs:
        one([s], "/" in s)
        if tier != "quick" or (s.endswith("=abc") and ti % 3 == 0):
            for _, m in spec_mutations(s):
                if m not in tried:
                    tried.add(m)
                    one([m], True)
    # ordered pairs: a convertible / unconvertible value at one depth next to any specifier at another
    firsts = [s for s in specs if s.endswith(("=abc", "=5")) and s.split("=")[0].split("/")[-1] in ("num", "zz")]
    seconds = specs if tier != "quick" else [s for s in specs if s.endswith(("=abc", "=5", "="))]
    for a in firsts:
        for b in seconds:
            one([a, b], True)
    return acc


# ---------------------------------------------------------------------------
# (c) include graphs over three virtual files

GRAPH_SCHEMA = """<schema>
  <multikey name="m"/>
  <sectiontype name="s"><multikey name="m"/></sectiontype>
  <multisection type="s" name="*" attribute="ss"/>
</schema>
"""
URLS = ["file:///v/g/a.conf", "file:///v/g/b.conf", "file:///v/g/c.conf"]
NAMES = ["a.conf", "b.conf", "c.conf"]


def graph_files(bits, inside):
    files = {}
    for i in range(3):
        lines = ["m file%d" % i]
        inc = ["%%include %s" % NAMES[j] for j in range(3) if bits[i][j]]
        if inside and inc:
            lines += ["<s>"] + ["  " + l for l in inc] + ["  m inner%d" % i, "</s>"]
        else:
            lines += inc
        files[URLS[i]] = "\n".join(lines) + "\n"
    return files


def load_anonymous(sch, files, toptext):
    import io
    import ZConfig
    try:
        ld = H.mem_loader(sch, files, ())
        cfg, h = ld.loadFile(io.StringIO(toptext))
        return ("ok", cfg, h)
    except ZConfig.ConfigurationError as e:
        return ("rejected", e, None)
    except Exception as e:
        return ("internal", e, None)


def has_cycle(bits, start=0):
    # only what is reachable from the start file matters
    color = {}

    def dfs(u):
        color[u] = 1
        for v in range(3):
            if bits[u][v]:
                if color.get(v) == 1:
                    return True
                if v not in color and dfs(v):
                    return True
        color[u] = 2
        return False
    return dfs(start)


def shard_c(arg, acc):
    lo, hi, inside = arg
    sch = H.load_schema(GRAPH_SCHEMA)
    for g in range(lo, hi):
        bits = [[(g >> (3 * i + j)) & 1 for j in range(3)] for i in range(3)]
        files = graph_files(bits, inside)
        acc.current = files
        r = H.load_mem(sch, files, URLS[0])
        acc.ev()
        acc.transitions += 1
        cyc = has_cycle(bits)
        if any(any(row) for row in bits):
            acc.nt()
        acc.cls("graph-%s-%s" % ("cyclic" if cyc else "acyclic", classify(r).split(":")[0]))
        acc.sample(lambda: {"graph": bits, "inside_section": inside, "outcome": classify(r)})
        case = {"files": files, "graph": bits, "inside_section": inside}
        # the same graph entered from a top-level text that has NO URL of its own (loadConfigFile on a
        # nameless stream) and reaches the files through absolute URLs
        for entry in ((0,), (1,), (0, 1), (2, 0)):
            top = "m top\n" + "".join("%%include %s\n" % URLS[i] for i in entry)
            if inside:
                top = "m top\n<s>\n" + "".join("  %%include %s\n" % URLS[i] for i in entry) + "</s>\n"
            r2 = load_anonymous(sch, files, top)
            acc.ev()
            acc.transitions += 1
            acc.nt()
            cyc2 = any(has_cycle(bits, i) for i in entry)
            acc.cls("graph-anon-%s-%s" % ("cyclic" if cyc2 else "acyclic", classify(r2).split(":")[0]))
            case2 = dict(case, anonymous_top=top)
            if r2[0] == "internal":
                d = core.exc_desc(r2[1])
                acc.violation("internal-error-escapes", case2, d, "ZConfig.ConfigurationError family",
                              tags={"kind": "internal-error", "exc": d["class"], "input": "include-graph",
                                    "cyclic": cyc2, "top": "anonymous"})
            elif cyc2 and r2[0] == "ok":
                acc.violation("cyclic-include-accepted", case2, "accepted", "rejected",
                              tags={"kind": "cycle-accepted", "top": "anonymous"})
            elif not cyc2 and r2[0] != "ok" and not inside:
                acc.violation("acyclic-include-graph-rejected", case2, str(r2[1])[:200], "accepted",
                              tags={"kind": "acyclic-rejected", "top": "anonymous"})
        if r[0] == "internal":
            d = core.exc_desc(r[1])
            acc.violation("internal-error-escapes", case, d, "ZConfig.ConfigurationError family",
                          tags={"kind": "internal-error", "exc": d["class"], "input": "include-graph", "cyclic": cyc})
        elif cyc and r[0] == "ok":
            acc.violation("cyclic-include-accepted", case, "accepted", "rejected", tags={"kind": "cycle-accepted"})
        elif not cyc and r[0] != "ok" and not inside:
            acc.violation("acyclic-include-graph-rejected", case, str(r[1])[:200], "accepted",
                          tags={"kind": "acyclic-rejected"})
    return acc


# ---------------------------------------------------------------------------
# (e) arguments of %include / %import: URL-shaped junk

URL_TOKENS = ["a.invalid", ":", "/", "[", "]", "#", "%", "\x00", "@", "?", "9", "..", "package", "file", " x", "[::1"]
URL_PREFIXES = ["", "http:", "http://", "file:", "file://", "ftp://", "package:", "package:os:", "//", "mailto:",
                "HTTP://", "data:"]


def shard_e(arg, acc):
    lo, hi, maxlen = arg
    sch = H.load_schema(GRAPH_SCHEMA)
    combos = [()]
    for n in range(1, maxlen + 1):
        combos += list(itertools.product(URL_TOKENS, repeat=n))
    for ci in range(lo, min(hi, len(combos))):
        tail = "".join(combos[ci])
        for pre in URL_PREFIXES:
            arg_ = pre + tail
            if not arg_.strip():
                continue
            for directive, ctx in (("%include", False), ("%include", True), ("%import", False)):
                line = directive + " " + arg_
                text = ("<s>\n  %s\n</s>\n" % line) if ctx else (line + "\n")
                acc.current = text
                for top_url in ("file:///v/g/main.conf", None):
                    if top_url is None and (ctx or directive != "%include"):
                        continue
                    r = H.load(sch, text, url=top_url) if top_url else load_anonymous(sch, {}, text)
                    acc.ev()
                    acc.transitions += 1
                    acc.nt()
                    acc.cls("directive-arg-" + classify(r).split(":")[0])
                    if r[0] == "internal":
                        d = core.exc_desc(r[1])
                        acc.violation("internal-error-escapes",
                                      {"text": text, "directive_argument": arg_, "top_url": top_url}, d,
                                      "ZConfig.ConfigurationError family",
                                      tags={"kind": "internal-error", "exc": d["class"], "where": d["where"],
                                            "input": "directive-argument"})
    return acc


# ---------------------------------------------------------------------------
# (d) the validator command

def shard_d(arg, acc):
    import ZConfig
    import ZConfig.validator
    which, tier = arg
    name, S, root, cdepth, lean = which
    xml = M.render(S)
    sch = H.load_schema(xml)
    d = tempfile.mkdtemp(prefix="vz-c07-", dir="/dev/shm" if os.path.isdir("/dev/shm") else None)
    try:
        sp = os.path.join(d, "schema.xml")
        with open(sp, "w") as f:
            f.write(xml)
        texts = []
        for events, dec in C.nodes(S, root, cdepth, lean):
            if dec.verdict == "U" or len(events) < 2:
                continue
            t = H.render_events(events)
            texts.append(t)
            if dec.verdict == "A":
                for lab, m in itertools.islice(mutations(t), 0, None, 41):
                    texts.append(m)
            if len(texts) > (30 if tier == "quick" else 120):
                break
        info = []
        for i, t in enumerate(texts):
            p = os.path.join(d, "f%d.conf" % i)
            with open(p, "w") as f:
                f.write(t)
            try:
                ZConfig.loadConfig(sch, p)
                info.append((p, None))
            except ZConfig.ConfigurationError as e:
                info.append((p, str(e)))
            except Exception as e:
                info.append((p, "INTERNAL"))
        combos = [(i,) for i in range(len(info))]
        combos += [(i, (i * 7 + 3) % len(info)) for i in range(len(info))]
        combos += [(i, (i * 5 + 1) % len(info), (i * 3 + 2) % len(info)) for i in range(0, len(info), 2)]
        for combo in combos:
            files = [info[i] for i in combo]
            if any(msg == "INTERNAL" for _, msg in files):
                continue
            err = io.StringIO()
            acc.ev()
            acc.transitions += 1
            status = None
            exc = None
            with warnings.catch_warnings(), contextlib.redirect_stderr(err):
                warnings.simplefilter("ignore")      # stderr is compared exactly: no once-per-process warning text
                try:
                    status = ZConfig.validator.main(["-s", sp] + [p for p, _ in files])
                except SystemExit as e:
                    exc = ("SystemExit", e.code)
                except Exception as e:
                    exc = core.exc_desc(e)
            bad = [msg for _, msg in files if msg is not None]
            want = 1 if bad else 0
            if len(combo) > 1:
                acc.nt()
            acc.cls("validator-status-%s" % status)
            case = {"schema": xml, "files": [open(p).read() for p, _ in files]}
            if exc is not None or status != want:
                acc.violation("validator-wrong-status", case, [status, exc], want, tags={"kind": "validator-status"})
                continue
            out = err.getvalue()
            pos = 0
            for msg in bad:
                k = out.find(msg, pos)
                if k < 0:
                    acc.violation("validator-message-missing", case, out[:300], bad, tags={"kind": "validator-message"})
                    break
                pos = k + len(msg)
            else:
                # one message per invalid file and nothing else
                if out != "".join(msg + "\n" for msg in bad):
                    acc.violation("validator-extra-output", case, out[:300], bad,
                                  tags={"kind": "validator-message", "feature": "extra-output"})
    finally:
        shutil.rmtree(d, ignore_errors=True)
    return acc


# ---------------------------------------------------------------------------
# (f) the validator command on every ordered SEQUENCE of files over an alphabet of file kinds in which each
# file carries one directive that leaves state behind in whatever object processes it (a loader, a parser, a
# matcher, the schema) and one body whose validity depends on exactly that state.  The verdict of a file
# must not depend on the files before it.

SEQ_SCHEMA = """<schema>
  <abstracttype name="plug"/>
  <sectiontype name="base" implements="plug">
    <key name="k"/>
  </sectiontype>
  <key name="a"/>
  <multikey name="m"/>
  <multisection type="plug" name="*" attribute="plugs"/>
</schema>
"""

# head label -> (lines (package / file names are logical), names it makes available to LATER lines of the same
# file, is the head itself a fault)
SEQ_HEADS = [
    ("none", [], (), False),
    ("imp-pa", ["%import {pa}"], ("ea",), False),
    ("imp-pb", ["%import {pb}"], ("eb",), False),
    ("imp-pc", ["%import {pc}"], ("ec", "ea"), False),            # pc's component imports pa itself
    ("imp-pa-twice", ["%import {pa}", "%import {pa}"], ("ea",), False),
    ("imp-broken", ["%import {px}"], (), True),                   # component refers to an unknown abstract type
    ("imp-missing", ["%import {pm}"], (), True),                  # no such package
    ("imp-nocomp", ["%import {pn}"], (), True),                   # package without component.xml
    ("define", ["%define v 1"], ("$v",), False),
    ("inc-ok", ["%include inc_ok.conf"], (), False),
    ("inc-bad", ["%include inc_bad.conf"], (), True),             # included resource holds an unknown key
    ("inc-imp", ["%include inc_imp.conf"], ("ea",), False),       # included resource does '%import pa'
]
# body label -> (lines, names it needs, is the body itself a fault)
SEQ_BODIES = [
    ("key", ["a 1"], (), False),
    ("base-named", ["<base n1/>"], (), False),
    ("use-ea", ["<ea>", "  k 1", "</ea>"], ("ea",), False),
    ("use-eb", ["<eb/>"], ("eb",), False),
    ("use-ec", ["<ec n1/>"], ("ec",), False),
    ("use-define", ["a $v"], ("$v",), False),
    ("bad-key", ["zz 1"], (), True),
]
SEQ_HEAD = {h[0]: h for h in SEQ_HEADS}
SEQ_BODY = {b[0]: b for b in SEQ_BODIES}
SEQ_FAILING_IMPORTS = ("imp-broken", "imp-missing", "imp-nocomp")
SEQ_SMALL_HEADS = ("none", "imp-pa", "imp-pc", "imp-broken", "define", "inc-imp")
SEQ_SMALL_BODIES = ("key", "use-ea", "use-define")


def seq_kinds(heads=None, bodies=None, orders=("hb", "bh")):
    """File kinds (head, body, order): order 'hb' = head lines first, 'bh' = body lines first."""
    out = []
    for h in SEQ_HEADS:
        if heads is not None and h[0] not in heads:
            continue
        for b in SEQ_BODIES:
            if bodies is not None and b[0] not in bodies:
                continue
            for o in orders:
                if h[0] == "none" and o != "hb":
                    continue
                out.append((h[0], b[0], o))
    return out


def seq_model_valid(kind):
    """Reference verdict of one file on its own, from the schema and the documented directives: every name
    a line uses must have been made available by an EARLIER line of the same file."""
    h, b, o = kind
    _, _, gives, hbad = SEQ_HEAD[h]
    _, _, needs, bbad = SEQ_BODY[b]
    if hbad or bbad:
        return False
    have = set(gives) if o == "hb" else set()
    return set(needs) <= have


def seq_lines(kind):
    h, b, o = kind
    hl, bl = SEQ_HEAD[h][1], SEQ_BODY[b][1]
    return (hl + bl) if o == "hb" else (bl + hl)


class InternalError:
    """Per-file verdict: something outside the error family escaped from loading the file alone."""

    def __init__(self, desc):
        self.desc = desc


class SeqEnv:
    """Scratch packages + files for part (f); per-file verdicts are computed lazily, each with a schema object
    and a loader of its own (ZConfig.loadSchema + ZConfig.loadConfig)."""

    def __init__(self):
        from vz.harness import pkgs
        self.P = pkgs.Packages()
        self.dir = tempfile.mkdtemp(prefix="vz-c07f-", dir="/dev/shm" if os.path.isdir("/dev/shm") else None)
        try:
            P = self.P
            pa = P.add_component("pa", [M.SType("ea", (M.Key("k"),), implements="plug")])
            pb = P.add_component("pb", [M.SType("eb", (), implements="plug")])
            pc = P.add_component("pc", [M.SType("ec", (M.Key("k"),), implements="plug")], imports=(pa,))
            px = P.add_component("px", [M.SType("ex", (), implements="no-such-abstract-type")])
            pn = P.add_package_without_component("pn")
            pm = P.missing("pm")
            self.names = {"pa": pa, "pb": pb, "pc": pc, "px": px, "pn": pn, "pm": pm}
            self.schema_path = os.path.join(self.dir, "schema.xml")
            self._write("schema.xml", SEQ_SCHEMA)
            self._write("inc_ok.conf", "m 5\n")
            self._write("inc_bad.conf", "m 5\nzz 9\n")
            self._write("inc_imp.conf", "%%import %s\n" % pa)
        except BaseException:
            self.close()
            raise
        self._paths = {}
        self._verdicts = {}
        self._shared = None

    def _write(self, name, text):
        with open(os.path.join(self.dir, name), "w") as f:
            f.write(text)

    def text(self, kind, logical=False):
        names = {k: k for k in self.names} if logical else self.names
        return "\n".join(l.format(**names) if l.startswith("%import") else l for l in seq_lines(kind)) + "\n"

    def path(self, kind):
        p = self._paths.get(kind)
        if p is None:
            name = "%s.%s.%s.conf" % kind
            self._write(name, self.text(kind))
            p = self._paths[kind] = os.path.join(self.dir, name)
        return p

    def verdict(self, kind):
        """None (the file loads) or the message of its configuration error, loaded alone."""
        if kind not in self._verdicts:
            import ZConfig
            schema = ZConfig.loadSchema(self.schema_path)
            try:
                ZConfig.loadConfig(schema, self.path(kind))
                v = None
            except ZConfig.ConfigurationError as e:
                v = str(e)
            except Exception as e:
                v = InternalError(core.exc_desc(e))
            self._verdicts[kind] = v
        return self._verdicts[kind]

    def shared_schema(self):
        if self._shared is None:
            import ZConfig
            self._shared = ZConfig.loadSchema(self.schema_path)
        return self._shared

    def display(self, s):
        for logical, real in self.names.items():
            s = s.replace(real, logical)
        return s.replace(self.dir, "<dir>")

    def close(self):
        self.P.close()
        shutil.rmtree(self.dir, ignore_errors=True)


def seq_run(env, seq):
    """Run the validator on the files of `seq`; -> list of (kind, observed, expected, tags) violations."""
    import ZConfig.validator
    out = []
    model = [seq_model_valid(k) for k in seq]
    alone = [env.verdict(k) for k in seq]
    for k, mv, av in zip(seq, model, alone):
        if isinstance(av, InternalError):
            out.append(("internal-error-escapes", av.desc, "ZConfig.ConfigurationError family",
                        {"kind": "internal-error", "exc": av.desc["class"], "where": av.desc["where"],
                         "input": "validator-file"}))
        elif mv != (av is None):
            out.append(("file-verdict-differs-from-model", env.display(repr(av)), "valid" if mv else "invalid",
                        {"kind": "file-verdict", "part": "file-sequence", "head": k[0], "body": k[1], "order": k[2]}))
    if out:
        return out
    err = io.StringIO()
    status = exc = None
    with warnings.catch_warnings():
        warnings.simplefilter("ignore")
        with contextlib.redirect_stderr(err):
            try:
                status = ZConfig.validator.main(["-s", env.schema_path] + [env.path(k) for k in seq])
            except SystemExit as e:
                exc = ("SystemExit", e.code)
            except Exception as e:
                exc = core.exc_desc(e)
    want = 0 if all(model) else 1
    want_err = "".join(m + "\n" for m in alone if m is not None)
    got = err.getvalue()
    if exc is not None or status != want:
        out.append(("validator-wrong-status", [status, exc, env.display(got)[:300]], want,
                    {"kind": "validator-status", "part": "file-sequence"}))
    elif got != want_err:
        out.append(("validator-messages-differ", env.display(got)[:400], env.display(want_err)[:400],
                    {"kind": "validator-message", "part": "file-sequence"}))
    return out


def seq_same_loader(env, seq):
    """The files of `seq` loaded one after the other by ONE ConfigLoader object on one schema object.  A loader keeps
    what its files imported, so the verdicts are not asserted - only that nothing outside the error family escapes."""
    import ZConfig
    import ZConfig.loader
    out = []
    ld = ZConfig.loader.ConfigLoader(env.shared_schema())
    for i, k in enumerate(seq):
        try:
            ld.loadURL(env.path(k))
            r = "accepted"
        except ZConfig.ConfigurationError:
            r = "rejected"
        except Exception as e:
            d = core.exc_desc(e)
            out.append(("internal-error-escapes", d, "ZConfig.ConfigurationError family",
                        {"kind": "internal-error", "exc": d["class"], "where": d["where"], "input": "same-loader-sequence"}))
            break
    return out


def seq_features(seq):
    """History features of a sequence (for the vacuity guards)."""
    f = set()
    for j in range(1, len(seq)):
        hj, bj, oj = seq[j]
        needs = set(SEQ_BODY[bj][2])
        for i in range(j):
            hi = seq[i][0]
            gives = set(SEQ_HEAD[hi][2])
            if needs and needs <= gives and not seq_model_valid(seq[j]) and not SEQ_HEAD[hj][3]:
                f.add("define-then-bare-use" if "$v" in needs else "import-then-bare-use")
            if hi == hj and hi in SEQ_FAILING_IMPORTS:
                f.add("same-failing-import-again")
            if hi == hj and gives and "$v" not in gives:
                f.add("same-import-again")
            if seq[i] == seq[j]:
                f.add("same-file-again")
            vi, vj = seq_model_valid(seq[i]), seq_model_valid(seq[j])
            f.add("valid-before-invalid" if vi and not vj else "invalid-before-valid" if vj and not vi else
                  "both-valid" if vi else "both-invalid")
    return f


def seq_space(tier):
    """-> list of (arity, alphabet label, alphabet)"""
    full = seq_kinds()
    small = seq_kinds(SEQ_SMALL_HEADS, SEQ_SMALL_BODIES, ("hb",))
    headfirst = seq_kinds(orders=("hb",))
    if tier == "quick":
        return [(1, "full", full), (2, "full", full), (3, "small", small)]
    return [(1, "full", full), (2, "full", full), (3, "head-first", headfirst), (4, "small", small)]


def shard_f(arg, acc):
    arity, label, lo, hi, tier = arg
    alphabet = dict((l, a) for n, l, a in seq_space(tier) if n == arity)[label]
    env = SeqEnv()
    try:
        if arity == 1 and lo == 0:
            acc.states += len(alphabet)
        for first in alphabet[lo:hi]:
            for rest in itertools.product(alphabet, repeat=arity - 1):
                seq = (first,) + rest
                acc.current = seq
                viols = seq_run(env, seq)
                acc.ev()
                acc.transitions += 1
                if arity > 1:
                    acc.nt()
                if arity == 2:
                    viols += seq_same_loader(env, seq)
                    acc.ev()
                    acc.nt()
                    acc.transitions += 1
                    acc.extra["seq_same_loader_pairs"] += 1
                acc.cls("seq%d-status-%d" % (arity, 0 if all(seq_model_valid(k) for k in seq) else 1))
                for ft in seq_features(seq):
                    acc.extra["seq_" + ft.replace("-", "_")] += 1
                acc.sample(lambda: {"validator_sequence": [list(k) for k in seq],
                                    "files": [env.text(k, logical=True) for k in seq]})
                for kind, observed, expected, tags in viols:
                    acc.violation(kind, {"sequence": [list(k) for k in seq], "schema": SEQ_SCHEMA,
                                         "files": [env.text(k, logical=True) for k in seq]},
                                  observed, expected, tags=tags)
    finally:
        env.close()
    return acc


def seq_shards(tier):
    out = []
    for arity, label, alphabet in seq_space(tier):
        n = len(alphabet)
        per = n if arity == 1 else max(1, (n + 31) // 32) if arity == 2 or tier == "quick" else 1
        out += [(arity, label, lo, min(n, lo + per), tier) for lo in range(0, n, per)]
    return out


def run(tier):
    run = core.Run(
        "C07", tier, "model_checking",
        rule="(a) every single mutation (delete / duplicate / transpose at every character, insertion of each of "
             "'<>/%%#()$= ' at every position, delete / duplicate / swap of every token and line) of every seed "
             "(accepted corpus texts <= 9 lines, capped per schema; a 40-line hand-written text)%s; (b) every valid "
             "override specifier of seeds with sections and all its single mutations (seeds chosen so that every section-type path "
             "of the corpus is addressed); (b2) a purpose-built schema with integer / boolean / wildcard-integer keys at every "
             "depth 0..3 under basic-key and identifier key types, all texts spelling each level long / short with the key "
             "present / absent, 14 paths x 8 keys x 7 values as single specifiers with all their single mutations, and ordered "
             "pairs; (c) all 512 include graphs over "
             "3 in-memory resources x {top level, inside a section}; (d) validator.main in-process on singles, pairs "
             "and triples of files (stderr must be exactly the messages of the invalid files, in order); (f) validator.main on "
             "every ordered sequence WITH repetition of files over an alphabet of %d file kinds = 12 heads (nothing; %%import of a "
             "component, of a second one, of one that imports the first, of the same one twice, of a broken one, of a missing "
             "package, of a package without component.xml; %%define; %%include of a valid resource, of an invalid one, of "
             "one that itself imports a component) x 7 bodies (a key; a named section of a schema type; a section of each "
             "component's type; a key using the defined name; an unknown key) x {head first, body first}: all %d singles, all "
             "%d ordered pairs, %s; status and the exact stderr must be those of the files taken one by one, "
             "each with a schema object and loader of its own (the verdict of a file may not depend on the files before "
             "it), and each file's own verdict must be the one a model of the directives predicts; every ordered pair also loaded "
             "by ONE ConfigLoader object on one schema object (only the error family may escape; the verdicts are not asserted "
             "there, a loader keeps what its files imported); (e) '%%include' (top level and inside a section) and '%%import' with every argument made of a "
             "URL prefix (12) + <= %d tokens from a 16-token URL alphabet ('[', ']', ':', '#', NUL, '..', 'package', an "
             "unresolvable host ...).  states = seeds, transitions = loads.  Non-trivial = mutated input whose "
             "outcome class differs from its seed's / graph with >= 1 edge / validator run on >= 2 files."
             % ("" if tier == "quick" else ", pairs (every 19th first mutation x all second mutations) for the first 12 seeds <= 5 lines of each schema",
                len(seq_kinds()), len(seq_kinds()), len(seq_kinds()) ** 2,
                "; ".join("all %d^%d %d-tuples over the %s sub-alphabet" % (len(a), n, n, l)
                          for n, l, a in seq_space(tier) if n > 2),
                2 if tier == "quick" else 3),
        bounds={"mutation_order": 1 if tier == "quick" else 2, "graphs": 1024,
                "seeds_per_schema": 8 if tier == "quick" else 24,
                "validator_sequences": {"%d-tuples over %s" % (n, l): len(a) ** n for n, l, a in seq_space(tier)},
                "validator_sequence_alphabets": {"full": len(seq_kinds()),
                                                 "head-first": len(seq_kinds(orders=("hb",))),
                                                 "small": len(seq_kinds(SEQ_SMALL_HEADS, SEQ_SMALL_BODIES, ("hb",)))}},
        assumptions=["schemas use only datatypes that reject with ValueError",
                     "accept/reject of acyclic include graphs: every file holds only multikey lines, so all are accepted"])
    mem = [("corpus",) + m + (tier,) for m in C.members_bounded(tier, 4)]
    S, text = long_seed()
    nm = len(list(mutations(text)))
    step = (nm + 15) // 16
    mem += [("long", lo, min(nm, lo + step), tier) for lo in range(0, nm, step)]
    core.pmap(shard_a, mem, run.acc, shard_budget=3000.0)
    core.pmap(shard_b2, [(i, tier) for i in range(len(deep_texts()))], run.acc)
    core.pmap(shard_c, [(lo, lo + 32, inside) for lo in range(0, 512, 32) for inside in (False, True)], run.acc)
    maxlen = 2 if tier == "quick" else 3
    ncomb = sum(len(URL_TOKENS) ** n for n in range(maxlen + 1))
    step = (ncomb + 31) // 32
    core.pmap(shard_e, [(lo, lo + step, maxlen) for lo in range(0, ncomb, step)], run.acc)
    cm = [m for m in C.members_bounded(tier, 4) if m[0].startswith("rich") or "@1" in m[0]]
    core.pmap(shard_d, [(m, tier) for m in cm[:: (4 if tier == "quick" else 1)]], run.acc)
    core.pmap(shard_f, seq_shards(tier), run.acc)
    a = run.acc
    a.traces = a.transitions
    run.require(a.classes.get("rejected", 0) > 1000 and a.classes.get("accepted", 0) > 1000, "few mutated texts")
    run.require(a.classes.get("override-rejected", 0) > 100, "few override mutations")
    run.require(a.extra.get("role_line_insertions", 0) > 10000, "role-line insertions hardly exercised")
    run.require(a.classes.get("graph-anon-cyclic-rejected", 0) > 100 and a.classes.get("graph-anon-acyclic-accepted", 0) > 100,
                "anonymous entry into include graphs hardly exercised")
    run.require(a.classes.get("deep-override-rejected:DataConversionError", 0) > 1000
                and a.classes.get("deep-override-accepted", 0) > 1000, "deep override sweep hardly converts anything")
    run.require(a.classes.get("validator-status-1", 0) > 10 and a.classes.get("validator-status-0", 0) > 5,
                "validator hardly exercised")
    x = a.extra
    run.require(a.classes.get("seq2-status-0", 0) > 1000 and a.classes.get("seq2-status-1", 0) > 1000
                and a.classes.get("seq3-status-0", 0) > 100 and a.classes.get("seq3-status-1", 0) > 1000,
                "validator file sequences hardly exercised")
    run.require(x.get("seq_import_then_bare_use", 0) > 500 and x.get("seq_define_then_bare_use", 0) > 100
                and x.get("seq_same_failing_import_again", 0) > 500 and x.get("seq_same_import_again", 0) > 500
                and x.get("seq_same_file_again", 0) > 150 and x.get("seq_same_loader_pairs", 0) > 10000,
                "validator file sequences: history-dependent orders (import / define in an earlier file that a later "
                "file needs, the same failing import twice, the same file twice) hardly exercised")
    run.require(x.get("seq_valid_before_invalid", 0) > 1000 and x.get("seq_invalid_before_valid", 0) > 1000
                and x.get("seq_both_invalid", 0) > 1000 and x.get("seq_both_valid", 0) > 1000,
                "validator file sequences: not every valid/invalid order exercised")
    return run


def replay(body):
    case = body["case"]
    rc = 0
    for _ in range(2):
        if "anonymous_top" in case:
            sch = H.load_schema(GRAPH_SCHEMA)
            r = load_anonymous(sch, case["files"], case["anonymous_top"])
        elif "graph" in case:
            sch = H.load_schema(GRAPH_SCHEMA)
            r = H.load_mem(sch, case["files"], URLS[0])
        elif "directive_argument" in case:
            sch = H.load_schema(GRAPH_SCHEMA)
            if case.get("top_url", "file:///v/g/main.conf"):
                r = H.load(sch, case["text"], url="file:///v/g/main.conf")
            else:
                r = load_anonymous(sch, {}, case["text"])
        elif "overrides" in case:
            sch = H.load_schema(case["member"]["schema"])
            r = H.load(sch, case["text"], overrides=case["overrides"])
        elif "member" in case:
            sch = H.load_schema(case["member"]["schema"])
            r = H.load(sch, case["text"])
        elif "sequence" in case:
            seq = tuple(tuple(k) for k in case["sequence"])
            env = SeqEnv()
            try:
                for k in seq:
                    print("file %s: model says %s; alone: %s" % (list(k), "valid" if seq_model_valid(k) else "invalid",
                                                                 env.display(repr(env.verdict(k)))))
                viols = seq_run(env, seq) + (seq_same_loader(env, seq) if len(seq) == 2 else [])
            finally:
                env.close()
            for kind, observed, expected, tags in viols:
                print("%s: observed %r expected %r" % (kind, observed, expected))
            if viols:
                rc = 1
            else:
                print("validator agrees with the files taken one by one")
            continue
        else:
            print("validator cases of part (d) are re-run by ./check C07")
            return 1
        print("outcome:", r[0], type(r[1]).__name__, str(r[1])[:200])
        if r[0] == "internal" or body["kind"] in ("cyclic-include-accepted", "acyclic-include-graph-rejected"):
            if r[0] == "internal" or (body["kind"] == "cyclic-include-accepted" and r[0] == "ok") or \
                    (body["kind"] == "acyclic-include-graph-rejected" and r[0] != "ok"):
                rc = 1
    return rc
