#!/usr/bin/env python3
"""refresh_patches.py - re-base every mutants/*.diff and seeded/*/patch.diff that no longer applies to /repo HEAD
(because a fix: commit touched its context) with `git apply --3way` in a scratch worktree; rewrites the patch file
from `git diff` when that succeeds, lists the ones that need a hand."""
import glob, os, subprocess, sys
def sh(*a, **k):
    return subprocess.run(a, capture_output=True, text=True, stdin=subprocess.DEVNULL, **k)
files = sorted(glob.glob("/verif/mutants/*.diff")) + sorted(glob.glob("/verif/seeded/*/patch.diff"))
wt = "/dev/shm/refresh-%d" % os.getpid()
assert sh("git", "-C", "/repo", "worktree", "add", "--detach", wt, "HEAD").returncode == 0
try:
    for f in files:
        if sh("git", "-C", wt, "apply", "--check", f).returncode == 0:
            continue
        r = sh("git", "-C", wt, "apply", "--3way", f)
        conflict = r.returncode != 0 or "<<<<<<<" in sh("git", "-C", wt, "diff").stdout
        if conflict:
            print("NEEDS-HAND", f, r.stderr.strip().splitlines()[-1:] )
        else:
            sh("git", "-C", wt, "reset", "-q")
            d = sh("git", "-C", wt, "diff").stdout
            open(f, "w").write(d)
            print("refreshed", f)
        sh("git", "-C", wt, "reset", "-q", "--hard")
        sh("git", "-C", wt, "clean", "-qfd")
finally:
    sh("git", "-C", "/repo", "worktree", "remove", "--force", wt)
    sh("git", "-C", "/repo", "worktree", "prune")
