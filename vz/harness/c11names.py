"""Homonymous conversions for C11 (wave 3): the packages vz.harness.c11n and vz.harness.c11o are two
self-similar trees (P, P.inner, P.inner.inner); every level defines the same three leaf names

    conv   value datatype    text -> '<tag>:' + text
    key    key type          ASCII identifier, lower-cased, carrying the prefix '<tag>_' (idempotent)
    sect   section datatype  section -> Box(tag, section)

so that ONE relative spelling ('.conv', '.inner.key', ...) names a DIFFERENT, distinguishable conversion
under every effective prefix.  The functions carry the module they are published in as __module__.
"""

TAGS = {
    "vz.harness.c11n": "na", "vz.harness.c11n.inner": "nb", "vz.harness.c11n.inner.inner": "nc",
    "vz.harness.c11o": "oa", "vz.harness.c11o.inner": "ob", "vz.harness.c11o.inner.inner": "oc",
}


class Box:
    def __init__(self, tag, inner):
        self.tag = tag
        self.inner = inner


def key_rule(tag, text):
    """The key-type rule, also used as the reference model's view of it: None = refused."""
    if not text or text[0].isdigit() or not all((c.isalnum() and ord(c) < 128) or c == "_" for c in text):
        return None
    t = text.lower()
    return t if t.startswith(tag + "_") else tag + "_" + t


def publish(modname):
    tag = TAGS[modname]

    def conv(text):
        return "%s:%s" % (tag, text)

    def key(text):
        r = key_rule(tag, text)
        if r is None:
            raise ValueError("not a %s key: %r" % (tag, text))
        return r

    def sect(section):
        return Box(tag, section)

    for f in (conv, key, sect):
        f.__module__ = modname
        f.__qualname__ = f.__name__
    return conv, key, sect
