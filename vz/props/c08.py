"""C08 - a rejected configuration names the resource and line that caused the rejection.

Engine E3: seeds are accepted texts (reference BFS over a purpose-built schema in
which every container admits every fault kind); each seed is laid out as one
resource, or with a balanced range moved into an included resource (one or two
levels), served in memory under distinct URLs; at EVERY line position of EVERY
resource exactly one fault of each applicable kind is injected, so the culprit
line and resource are known by construction.  Oracle: the raised error carries
that 1-based line number and that resource's URL (conversion errors also the
offending text and the original ValueError instance).

Wave 2 - the directive-state axis.  The parser carries state from earlier lines into
later ones (the table of %define'd names, shared by all resources of one load), and a
'$' construct is expanded in four kinds of line, not only in key values.  So the
substitution / definition faults are additionally enumerated as a full product
   carrier   (where the bad text stands: key value, multikey value, first %define of a
              name, %define of a name that IS ALREADY DEFINED, %include argument,
              %import argument)
 x construct (six malformed / unresolvable '$' forms)
 x history   (where the earlier definition that the line refers to or repeats lives:
              nowhere, the previous line, the top of the main resource (= the including
              resource when the fault is in an included one), another resource included
              before, or defined twice already (top of main + a legal repeat just before))
plus the history-dependent faults that contain no bad '$' at all (conflicting redefinition of
a name defined elsewhere, use of a name before the line that defines it, a value that becomes
unconvertible only through a name defined elsewhere), at every line position of every resource.

Wave 5 - two axes that the faults were never varied along.
(a) ADDRESSING: how the main resource gets its URL, and how %include lines refer to the others.  Until now
    every load was loader.loadFile(StringIO, <url>) with relative references, so "the resource's URL" was
    always a non-empty string handed in by the caller.  Now every base fault kind is also injected, at every
    line position of every resource of every layout, under each way of addressing:
    URL argument / loadURL(url) / URL derived from the file object's .name / no URL at all (no argument,
    empty argument, a pseudo name like '<stdin>': the resource's URL is then None, the line number must be
    there all the same, and %include lines must be absolute) x relative / absolute references.
(b) LINE SHAPE: a fault whose culprit is a key line was only ever written 'key text'.  Now the culprit line of
    every such kind (unknown key, key naming a section slot, key refused by the key type, repeated single key
    - string and integer -, unconvertible value of a key / of a multikey before and after a good value / inside
    a section / of an outer section that closes after an inner one) is written in every key spelling (as declared,
    upper case) x every value shape (absent, absent with trailing blanks, literal, literal with inner blanks,
    '$$', a defined name with a non-empty value, a defined name whose value is empty); for a repeated key the
    first occurrence varies too.  A conversion error must carry the text AFTER expansion ('' for a bare key).
"""
import io

from vz import core
from vz.gen import corpus as C
from vz.gen import schema as M
from vz.harness import dt as DT
from vz.harness import load as H
from vz.props.c06 import balanced

MAIN = "file:///v/dir/main.conf"
INC = ["file:///v/dir/inc/one.conf", "file:///v/dir/inc/deeper/two.conf"]
DEFS = "file:///v/dir/defs/names.conf"      # history 'sibling': definitions made in a resource included before
REL = {INC[0]: "inc/one.conf", INC[1]: "deeper/two.conf", DEFS: "defs/names.conf"}
UNSET_ENV = "VZ_C08_NEVER_SET"

SINT = "vz.harness.dt.strict_int"

# ---------------------------------------------------------------------------
# wave 5 (a): the addressing axis.  (how the main resource is opened, how %include lines refer to resources)
MAIN_PATH = "/v/dir/main.conf"          # the path whose file: URL is MAIN
ADDRESSINGS = [
    ("url-argument", "relative"),       # loadFile(file, url) - the only form used before wave 5
    ("url-argument", "absolute"),
    ("load-url", "relative"),           # loadURL(url): the loader opens the main resource itself
    ("file-name", "relative"),          # loadFile(file): URL computed from file.name
    ("no-url", "absolute"),             # loadFile(file), the file has no name: the resource has no URL
    ("empty-url-argument", "absolute"),  # loadFile(file, "")
    ("pseudo-file-name", "absolute"),   # loadFile(file), file.name == "<stdin>": no URL either
    # wave 6: every resource (main and included) goes through the loader's OWN openResource - bytes from a URL stream,
    # decoded and wrapped by ZConfig - and every resource begins with REAL_OPEN_PAD (blank / whitespace-only lines),
    # so a resource that is re-written on its way in (stripped, re-split, normalised) reports other line numbers
    ("load-url-real-open", "relative"),
]
REAL_OPEN_PAD = "\n \t\n"
REAL_OPEN_SHIFT = 2
DEFAULT_ADDR = ADDRESSINGS[0]
URLLESS = ("no-url", "empty-url-argument", "pseudo-file-name")
SHAPE_ADDRESSINGS = {"quick": [("url-argument", "relative"), ("no-url", "absolute")],   # the two classes a parser
                     "thorough": ADDRESSINGS}                                          # can see: URL string / None


def addr_label(addr):
    return "%s/%s" % tuple(addr)


class _NamedIO(io.StringIO):
    """an open text file with a .name, as open() returns it"""
    name = None


def load_addressed(sch, files, addr):
    """-> ('ok', config, handler) | ('rejected', exc) | ('internal', exc); the main resource opened as `addr` says"""
    import ZConfig
    how = addr[0]
    if how == "url-argument":
        return H.load_mem(sch, files, MAIN)
    try:
        ld = H.mem_loader(sch, files)
        text = files[MAIN]
        if how == "load-url-real-open":
            padded = {u: REAL_OPEN_PAD + t for u, t in files.items()}
            ld = H.mem_loader(sch, padded, real_open=True)
            try:
                cfg, h = ld.loadURL(MAIN)
            except ZConfig.ConfigurationError as e:
                # harness-side: express the position in the lines of the unpadded resource again
                if isinstance(getattr(e, "lineno", None), int) and e.lineno > 0:
                    e.lineno -= REAL_OPEN_SHIFT
                raise
        elif how == "load-url":
            cfg, h = ld.loadURL(MAIN)
        elif how == "file-name":
            f = _NamedIO(text)
            f.name = MAIN_PATH
            cfg, h = ld.loadFile(f)
        elif how == "no-url":
            cfg, h = ld.loadFile(io.StringIO(text))
        elif how == "empty-url-argument":
            cfg, h = ld.loadFile(io.StringIO(text), "")
        elif how == "pseudo-file-name":
            f = _NamedIO(text)
            f.name = "<stdin>"
            cfg, h = ld.loadFile(f)
        else:
            raise core.HarnessError("unknown addressing %r" % (addr,))
        return ("ok", cfg, h)
    except ZConfig.ConfigurationError as e:
        return ("rejected", e, None)
    except core.HarnessError:
        raise
    except Exception as e:
        return ("internal", e, None)


def schema():
    leaf = M.SType("leaf", (M.Key("lk", default="d"), M.Key("li", SINT, default="1")),
                   datatype="vz.harness.dt.reject_section")
    need = M.SType("need", (M.Key("rk", required=True), M.MultiKey("rm", required=True)))
    box_items = (M.Key("k1"), M.Key("k2", SINT), M.MultiKey("m1"), M.MultiKey("m2", SINT),
                 M.Sect("n1", "leaf"), M.Sect("*", "leaf", attribute="leaves", multi=True),
                 M.Sect("*", "need", attribute="needs", multi=True),
                 M.Sect("+", "one", attribute="single"),
                 M.Sect("*", "box", attribute="boxes", multi=True))
    one = M.SType("one", (M.Key("ok"),))
    # 'box' refers to itself: declare it first without the recursive slot is impossible in the
    # schema language, so boxes nest through 'inner' (same items, no further nesting)
    inner_items = box_items[:-1]
    inner = M.SType("inner", inner_items)
    box = M.SType("box", inner_items + (M.Sect("*", "inner", attribute="inners", multi=True),))
    S = M.Schema(types=(M.SType("schemaonly"), leaf, need, one, inner, box),   # 'schemaonly': known, admitted nowhere
                 items=inner_items + (M.Sect("*", "box", attribute="boxes", multi=True),))
    return S


M.VALUE_TOKENS[SINT] = ["7", "x"]

# ---------------------------------------------------------------------------
# faults: (kind, lines to inject, index of the culprit line within them, expectation)
#   expectation: dict(cls=exception class name or tuple, value=offending text or None)


def faults_for(S, tname, before, after, used_names):
    """All single faults applicable inside container `tname` given what the seed
    already holds there (keys present, section names used)."""
    items = M.eff_items(S, tname)
    keys = [it for it in items if isinstance(it, (M.Key, M.MultiKey))]
    single_str = [it for it in keys if isinstance(it, M.Key) and it.datatype == "string"]
    ints = [it for it in keys if it.datatype == SINT]
    slots = {it.type: it for it in items if isinstance(it, M.Sect)}
    out = []
    SYN = "ConfigurationSyntaxError"
    out.append(("malformed-header-3-words", ["<a b c>"], 0, SYN, None))
    out.append(("malformed-header-no-gt", ["<leaf"], 0, SYN, None))
    out.append(("malformed-closer", ["</leaf"], 0, SYN, None))
    out.append(("malformed-key-line", ["(k v"], 0, SYN, None))
    out.append(("unknown-directive", ["%bogus x"], 0, SYN, None))
    out.append(("directive-without-argument", ["%define"], 0, SYN, None))
    out.append(("illegal-define-name", ["%define a-b x"], 0, SYN, None))
    out.append(("conflicting-redefinition", ["%define zq 1", "%define zq 2"], 1, SYN, None))
    k = (single_str or keys)[0].name if keys else "zz"
    out.append(("undefined-substitution", ["%s $undefinedname" % k], 0, "SubstitutionReplacementError", None))
    out.append(("malformed-substitution-trailing-dollar", ["%s v$" % k], 0,
                ("SubstitutionSyntaxError", SYN), None))
    out.append(("malformed-substitution-unclosed-brace", ["%s ${x" % k], 0,
                ("SubstitutionSyntaxError", SYN), None))
    out.append(("unknown-key", ["zzunknown v"], 0, None, None))
    out.append(("key-refused-by-keytype", ["1x v"], 0, "DataConversionError", "1x"))
    present_keys = before | after
    for it in single_str[:1]:
        if it.name in after:
            pass        # the later seed line would be the culprit: not injected here
        elif it.name in before:
            out.append(("repeated-key", ["%s again" % it.name], 0, None, None))
        else:
            out.append(("repeated-key", ["%s first" % it.name, "# c", "%s again" % it.name], 2, None, None))
    for it in ints:
        if isinstance(it, M.Key) and it.name in present_keys:
            continue
        out.append(("unconvertible-value", ["%s 1O" % it.name], 0, "DataConversionError", "1O"))
    out.append(("unknown-section-type-empty", ["<qq/>"], 0, SYN, None))
    out.append(("unknown-section-type", ["<qq>", "</qq>"], 0, SYN, None))
    out.append(("header-not-admitted-empty", ["<schemaonly/>"], 0, SYN, None))
    if "leaf" in slots:
        out.append(("name-rule-star-empty", ["<leaf */>"], 0, SYN, None))
        out.append(("name-rule-plus", ["<leaf +>", "</leaf>"], 0, SYN, None))
        nm = "fresh1"
        out.append(("reused-section-name-empty", ["<leaf %s/>" % nm, "<leaf %s/>" % nm.upper()], 1, None, None))
        out.append(("reused-section-name", ["<leaf %s>" % nm, "</leaf>", "<leaf %s>" % nm, " lk v", "</leaf>"], 4, None, None))
        # the statement's list of single-line causes does not include a rejecting section datatype
        # (it runs when the *enclosing* container is finished): position not compared (culprit None)
        out.append(("section-datatype-rejects", ["<leaf fresh2>", "  lk x", "</leaf>"], None, "DataConversionError", "SECTION"))
        out.append(("unconvertible-value-in-section", ["<leaf fresh3>", "  li 1O", "  lk v", "</leaf>"], 1,
                    "DataConversionError", "1O"))
        out.append(("unconvertible-value-in-empty-then-section", ["<leaf fresh4/>", "<leaf fresh5>", "  li 1O", "</leaf>"], 2,
                    "DataConversionError", "1O"))
    if "one" in slots:
        out.append(("unnamed-in-plus-slot-empty", ["<one/>"], 0, SYN, None))
        if "ONE-USED" not in used_names:
            out.append(("single-slot-filled-twice", ["<one a1/>", "<one a2>", "</one>"], 2, None, None))
            out.append(("single-slot-filled-twice-empty", ["<one a1/>", "<one a2/>"], 1, None, None))
    if "need" in slots:
        out.append(("missing-required-key", ["<need>", "  rm v", "</need>"], 2, None, None))
        out.append(("missing-required-key-empty", ["<need/>"], 0, None, None))
        out.append(("too-few-values", ["<need>", "  rk v", "</need>"], 2, None, None))
        out.append(("missing-required-key-named-empty", ["<need nn/>"], 0, None, None))
    return out



# ---------------------------------------------------------------------------
# wave 2: the directive-state axis (carrier x construct x history)

REPL = "SubstitutionReplacementError"
SUBSYN = ("SubstitutionSyntaxError", "ConfigurationSyntaxError")
HN = "zh"                   # the name the history defines
HV = "hv"                   # ... and its value
CONSTRUCTS = [              # (label, bad text, expected exception class)
    ("undefined-name", "$undefinedname", REPL),
    ("lone-dollar-at-end", "v$", SUBSYN),
    ("unclosed-brace", "${x", SUBSYN),
    ("dollar-before-non-name", "$-x", SUBSYN),
    ("unset-environment-name", "$(%s)" % UNSET_ENV, REPL),
    ("unclosed-paren", "$(x", SUBSYN),
]
HISTORIES = ["none", "prev-line", "main-top", "sibling-resource", "defined-twice"]
CARRIERS = ["key-value", "multikey-value", "define-first", "define-again", "include-argument", "import-argument"]
BASE_CONSTRUCTS = 3         # key-value x history none x the first three constructs are base kinds already


def with_history(hist, line, value=HV):
    """Place `line` after a definition of HN made where `hist` says.
    -> (lines injected at the position, index of the culprit among them, extra lines elsewhere)"""
    d = "%%define %s %s" % (HN, value)
    if hist == "none":
        return [line], 0, None
    if hist == "prev-line":
        return [d, line], 1, None
    if hist == "main-top":
        return [line], 0, {"top": [d]}
    if hist == "sibling-resource":
        return [line], 0, {"sibling": ["# names shared by all resources", d]}
    if hist == "defined-twice":
        return [d, line], 1, {"top": [d]}
    raise ValueError(hist)


def carrier_lines(S, tname):
    """carrier -> format string with one hole for the text that is expanded"""
    items = M.eff_items(S, tname)
    keys = [it for it in items if isinstance(it, (M.Key, M.MultiKey))]
    single_str = [it for it in keys if isinstance(it, M.Key) and it.datatype == "string"]
    multi_str = [it for it in keys if isinstance(it, M.MultiKey) and it.datatype == "string"]
    out = {}
    if keys:
        out["key-value"] = (single_str or keys)[0].name + " %s"
    if multi_str:
        out["multikey-value"] = multi_str[0].name + " %s"
    out["define-first"] = "%%define zfresh %s"
    out["define-again"] = "%%define " + HN + " %s"
    out["include-argument"] = "%%include %s"
    out["import-argument"] = "%%import %s"
    return out


def state_faults(S, tname, before, after):
    """The wave-2 family for one insertion point: 7-tuples
    (kind, lines, culprit index, class, value, extra lines elsewhere, axes)."""
    out = []
    cl = carrier_lines(S, tname)
    for carrier in CARRIERS:
        if carrier not in cl:
            continue
        for hist in HISTORIES:
            if carrier == "define-again" and hist == "none":
                continue        # that IS define-first
            for ci, (cname, bad, cls) in enumerate(CONSTRUCTS):
                if carrier == "key-value" and hist == "none" and ci < BASE_CONSTRUCTS:
                    continue
                text = bad if hist == "none" else "${%s}/%s" % (HN, bad)
                inj, culprit, extra = with_history(hist, cl[carrier] % text)
                out.append(("sub/%s/%s/%s" % (carrier, cname, hist), inj, culprit, cls, None, extra,
                            {"carrier": carrier, "construct": cname, "history": hist}))
        if carrier != "define-again":
            # the name is defined, but only on the NEXT line: names must be defined before they are used
            out.append(("sub/%s/use-before-define/next-line" % carrier,
                        [cl[carrier] % "$zlate", "%define zlate v"], 0, REPL, None, None,
                        {"carrier": carrier, "construct": "use-before-define", "history": "next-line"}))
    SYN = "ConfigurationSyntaxError"
    for hist in HISTORIES[1:]:
        if hist != "prev-line":      # prev-line is the base kind 'conflicting-redefinition'
            inj, culprit, extra = with_history(hist, "%%define %s other" % HN)
            out.append(("sub/define-again/conflicting-value/%s" % hist, inj, culprit, SYN, None, extra,
                        {"carrier": "define-again", "construct": "conflicting-value", "history": hist}))
        inj, culprit, extra = with_history(hist, "%%define %s ${%s}x" % (HN, HN))
        out.append(("sub/define-again/conflicting-after-expansion/%s" % hist, inj, culprit, SYN, None, extra,
                    {"carrier": "define-again", "construct": "conflicting-after-expansion", "history": hist}))
    items = M.eff_items(S, tname)
    for it in items:
        if not isinstance(it, (M.Key, M.MultiKey)) or it.datatype != SINT:
            continue
        if isinstance(it, M.Key) and it.name in (before | after):
            continue
        for hist in HISTORIES[1:]:
            # the text is only unconvertible through a name defined elsewhere: the culprit is the line of the value
            inj, culprit, extra = with_history(hist, "%s $%s" % (it.name, HN), value="1O")
            out.append(("sub/%s/unconvertible-through-name/%s" % (it.name, hist), inj, culprit,
                        "DataConversionError", "1O", extra,
                        {"carrier": "int-" + type(it).__name__.lower(), "construct": "unconvertible-through-name",
                         "history": hist}))
    return out


# ---------------------------------------------------------------------------
# wave 5 (b): the line-shape axis (fault family x key spelling x value shape)

VALUE_SHAPES = [        # (label, what follows the key on the line, lines that must precede it, the value after expansion)
    ("absent", "", (), ""),
    ("absent-trailing-blanks", " \t ", (), ""),
    ("literal", " v", (), "v"),
    ("literal-inner-blanks", "\tv  w ", (), "v  w"),
    ("escaped-dollar", " $$", (), "$"),
    ("name-nonempty", " $zs", ("%define zs s",), "s"),
    ("name-empty", " ${ze}", ("%define ze",), ""),
]
FIRST_SHAPES = ["absent", "literal", "name-empty"]       # shapes of the FIRST occurrence of a repeated key
KEY_SPELLINGS = [("as-declared", lambda k: k), ("upper-case", lambda k: k.upper())]
SHAPE_FAMILIES = ["unknown-key", "key-names-a-section-slot", "key-refused-by-keytype", "repeated-key",
                  "repeated-int-key", "unconvertible-value", "unconvertible-multikey-value",
                  "unconvertible-after-good-value", "unconvertible-before-good-value",
                  "unconvertible-value-in-section", "unconvertible-value-of-outer-section-after-inner"]
BARE = ("absent", "absent-trailing-blanks")


def shape_faults(S, tname, before, after):
    """The wave-5 family for one insertion point: 7-tuples like state_faults()."""
    items = M.eff_items(S, tname)
    keys = [it for it in items if isinstance(it, (M.Key, M.MultiKey))]
    single_str = [it for it in keys if isinstance(it, M.Key) and it.datatype == "string"]
    ints = [it for it in keys if it.datatype == SINT]
    slots = {it.type: it for it in items if isinstance(it, M.Sect)}
    named_slots = [it.name for it in items if isinstance(it, M.Sect) and it.name not in "*+"]
    shapes = {s[0]: s for s in VALUE_SHAPES}
    DCE = "DataConversionError"
    out = []

    def add(family, sp, sh, lines, culprit, cls, value, pre, first=None):
        kind = "shape/%s/%s/%s" % (family, sp, sh) + ("/first-" + first if first else "")
        axes = {"family": family, "key_spelling": sp, "value_shape": sh}
        if first:
            axes["first_shape"] = first
        out.append((kind, list(pre) + list(lines), len(pre) + culprit, cls, value, None, axes))

    for sp, spell in KEY_SPELLINGS:
        for sh, text, pre, expanded in VALUE_SHAPES:
            base_cell = (sp, sh) == ("as-declared", "literal")
            if not base_cell:
                add("unknown-key", sp, sh, [spell("zzunknown") + text], 0, None, None, pre)
                add("key-refused-by-keytype", sp, sh, [spell("1x") + text], 0, DCE, ("KEY", spell("1x")), pre)
            for nm in named_slots[:1]:
                add("key-names-a-section-slot", sp, sh, [spell(nm) + text], 0, None, None, pre)
            for it in single_str[:1]:
                if it.name in after:
                    pass        # the later seed line would be the culprit
                elif it.name in before:
                    add("repeated-key", sp, sh, [spell(it.name) + text], 0, None, None, pre)
                else:
                    for fs in FIRST_SHAPES:
                        _, ftext, fpre, _ = shapes[fs]
                        allpre = list(fpre) + [p for p in pre if p not in fpre]
                        add("repeated-key", sp, sh, [it.name + ftext, "# c", spell(it.name) + text], 2, None, None,
                            allpre, first=fs)
            for it in ints:
                single = isinstance(it, M.Key)
                if single and it.name in (before | after):
                    continue
                if single:
                    # repeated: refused when the second line is read, whatever the two values are
                    add("repeated-int-key", sp, sh, [it.name + " 7", spell(it.name) + text], 1, None, None, pre)
                    add("unconvertible-value", sp, sh, [spell(it.name) + text], 0, DCE, expanded, pre)
                else:
                    add("unconvertible-multikey-value", sp, sh, [spell(it.name) + text], 0, DCE, expanded, pre)
                    add("unconvertible-after-good-value", sp, sh, [it.name + " 7", spell(it.name) + text], 1, DCE,
                        expanded, pre)
                    add("unconvertible-before-good-value", sp, sh, [spell(it.name) + text, it.name + " 7"], 0, DCE,
                        expanded, pre)
            if "leaf" in slots:
                add("unconvertible-value-in-section", sp, sh,
                    ["<leaf fresh6>", "  " + spell("li") + text, "  lk v", "", "</leaf>"], 1, DCE, expanded, pre)
            for t in ("box", "inner"):
                if t in slots:
                    # the value belongs to the OUTER section, which is converted when it closes - after an inner
                    # section has been opened, filled and closed
                    add("unconvertible-value-of-outer-section-after-inner", sp, sh,
                        ["<%s>" % t, "  " + spell("k2") + text, "  <leaf fresh7>", "    lk v", "  </leaf>", "  m1 v",
                         "</%s>" % t], 1, DCE, expanded, pre)
                    break
    return out

# ---------------------------------------------------------------------------

def seed_lines(events):
    """[(line text, container type open AFTER this line)] plus bookkeeping."""
    text = H.render_events(events)
    return text.rstrip("\n").split("\n") if text.strip() else []


def container_at(lines):
    """container type name (None = schema) open before each line index 0..n"""
    st = [None]
    out = [None]
    for l in lines:
        s = l.strip()
        if s.startswith("</"):
            st.pop()
        elif s.startswith("<") and not s.endswith("/>"):
            st.append(s[1:-1].split()[0].lower())
        out.append(st[-1])
    return out


def keys_present(lines, pos):
    """-> (keys on lines of the same container before pos, after pos, {'ONE-USED'} if a
    'one' section is used in that container)."""
    before, after, used = set(), set(), set()
    for back in (True, False):
        rng = range(pos - 1, -1, -1) if back else range(pos, len(lines))
        d = 0
        for i in rng:
            s = lines[i].strip()
            if s.startswith("</"):
                if back:
                    d += 1
                else:
                    d -= 1
                    if d < 0:
                        break
                continue
            if s.startswith("<"):
                if s.endswith("/>"):
                    if d == 0 and s[1:].lower().startswith("one"):
                        used.add("ONE-USED")
                    continue
                if back:
                    d -= 1
                    if d < 0:
                        break
                    if d == 0 and s[1:].lower().startswith("one"):
                        used.add("ONE-USED")
                else:
                    if d == 0 and s[1:].lower().startswith("one"):
                        used.add("ONE-USED")
                    d += 1
                continue
            if d == 0 and s and s[0] not in "#%":
                (before if back else after).add(s.split()[0].lower())
    return before, after, used


def layouts(lines, tier):
    """Ways of spreading the seed over resources: list of dict url -> list of
    (text line | ('include', url))."""
    out = [{MAIN: list(lines)}]
    n = len(lines)
    rngs = [(i, j) for i in range(n) for j in range(i + 1, n + 1) if balanced(lines, i, j)]
    if tier == "quick":
        rngs = rngs[::2]
    for (i, j) in rngs:
        out.append({MAIN: lines[:i] + [("include", INC[0])] + lines[j:], INC[0]: lines[i:j]})
        inner = [(k, l) for (k, l) in rngs if i <= k and l <= j and (k, l) != (i, j)]
        for (k, l) in inner[:2 if tier == "quick" else 6]:
            out.append({MAIN: lines[:i] + [("include", INC[0])] + lines[j:],
                        INC[0]: lines[i:k] + [("include", INC[1])] + lines[l:j],
                        INC[1]: lines[k:l]})
    return out


def materialise(layout, refs="relative"):
    files = {}
    for url, ls in layout.items():
        out = []
        for l in ls:
            if isinstance(l, tuple):
                out.append("%include " + (REL[l[1]] if refs == "relative" else l[1]))
            else:
                out.append(l)
        files[url] = "\n".join(out) + "\n"
    return files


def flat_context(layout):
    """For every (url, index) insertion point: the flattened line list and the
    flattened position (to compute the open container and present keys)."""
    def flat(url):
        res = []
        for idx, l in enumerate(layout[url]):
            if isinstance(l, tuple):
                res += flat(l[1])
            else:
                res.append((url, idx, l))
        return res
    return flat(MAIN)


def check_fault(sch, layout, url, idx, fault, acc, mid, depth_of_resource, addr=DEFAULT_ADDR):
    import ZConfig
    kind, inj, culprit, cls, value = fault[:5]
    extra, axes = (fault[5], fault[6]) if len(fault) > 5 else (None, None)
    lay = {u: list(ls) for u, ls in layout.items()}
    lay[url][idx:idx] = ["    " + x for x in inj]
    shift = 0
    if extra:
        # the earlier definition lives elsewhere: at the top of the main resource and / or in a resource
        # that the main resource includes first
        top = list(extra.get("top", ()))
        if "sibling" in extra:
            lay[DEFS] = list(extra["sibling"])
            top = [("include", DEFS)] + top
        lay[MAIN][0:0] = top
        if url == MAIN:
            shift = len(top)
    files = materialise(lay, addr[1])
    exp_line = idx + shift + culprit + 1 if culprit is not None else None
    # the URL of the resource that holds the culprit: a main resource opened without any URL has none
    exp_url = None if (url == MAIN and addr[0] in URLLESS) else url
    case = {"member": mid, "files": files, "fault": kind, "resource": url, "culprit_line": exp_line,
            "addressing": list(addr), "culprit_url": exp_url}
    where = "main" if url == MAIN else "included-%d" % depth_of_resource
    al = addr_label(addr)
    if axes and "history" in axes:
        acc.extra["axis carrier=%s" % axes["carrier"]] += 1
        acc.extra["axis construct=%s" % axes["construct"]] += 1
        acc.extra["axis history=%s fault-in=%s" % (axes["history"], where)] += 1
    elif axes:
        acc.extra["axis shape family=%s" % axes["family"]] += 1
        acc.extra["axis shape key-spelling=%s" % axes["key_spelling"]] += 1
        acc.extra["axis shape value-shape=%s fault-in=%s" % (axes["value_shape"], where)] += 1
        acc.extra["axis shape addressing=%s" % al] += 1
    elif addr != DEFAULT_ADDR:
        acc.extra["axis addressing=%s fault-in=%s" % (al, where)] += 1
    acc.ev()
    acc.transitions += 1
    acc.current = case
    del DT.RAISED[:]
    r = load_addressed(sch, files, addr)
    if url != MAIN or (exp_line or 0) > 1:
        acc.nt()
    acc.sample(lambda: case)
    if r[0] == "ok":
        acc.cls("fault-not-rejected")
        acc.violation("injected-fault-accepted", case, "accepted", "rejected", tags={"kind": "accepted", "fault": kind})
        return
    e = r[1]
    if r[0] == "internal":
        d = core.exc_desc(e)
        acc.cls("internal")
        acc.violation("internal-error", case, d, "configuration error",
                      tags={"kind": "internal-error", "exc": d["class"], "where": d["where"], "fault": kind})
        return
    got = {"class": type(e).__name__, "lineno": getattr(e, "lineno", "<absent>"),
           "url": getattr(e, "url", "<absent>"), "msg": str(e)[:100]}
    if addr == DEFAULT_ADDR or (axes and "family" in axes):
        acc.cls("rejected:" + kind)
    else:
        acc.cls("rejected[%s]:%s" % (al, kind))
    if axes and "family" in axes and axes["value_shape"] in BARE:
        acc.extra["culprit is a key line without any value text: rejected"] += 1
    if addr[0] in URLLESS and url == MAIN and exp_line is not None:
        acc.extra["culprit in a main resource that has no URL: rejected"] += 1
        if got["class"] == "DataConversionError" and any(x.strip().startswith("</") for x in inj[culprit + 1:]):
            acc.extra["unconvertible value in a URL-less main resource, converted when a later line closes the section"] += 1
    empty_form = kind.endswith("-empty")
    tags = {"kind": "position", "fault": kind, "empty_form": empty_form, "exc": got["class"]}
    if axes:
        tags.update(axes)
    if addr != DEFAULT_ADDR:
        tags["addressing"] = al
    if exp_line is not None and (got["lineno"] != exp_line or got["url"] != exp_url):
        tags["what"] = ("lineno" if got["lineno"] != exp_line else "") + ("url" if got["url"] != exp_url else "")
        acc.violation("wrong-or-missing-position", case, got, {"lineno": exp_line, "url": exp_url}, tags=tags)
        return
    if cls is not None:
        ok = got["class"] in (cls if isinstance(cls, tuple) else (cls,))
        if not ok and not (cls == "ConfigurationSyntaxError" and isinstance(e, ZConfig.ConfigurationSyntaxError)):
            acc.violation("unexpected-error-class", case, got, cls, tags=dict(tags, kind="error-class"))
            return
    if isinstance(e, ZConfig.DataConversionError) and value is not None:
        v = getattr(e, "value", "<absent>")
        from_key = value == "1x" or isinstance(value, tuple)        # refused by the key type, not by strict_int
        if isinstance(value, tuple):
            value = value[1]
        if value == "SECTION":
            okv = hasattr(v, "getSectionAttributes")
        else:
            okv = v == value
        orig = getattr(e, "exception", None)
        if not okv or not isinstance(orig, ValueError) or (not from_key and (not DT.RAISED or orig is not DT.RAISED[-1])):
            acc.violation("conversion-error-lacks-value-or-original-exception", case,
                          {"value": repr(v)[:80], "exception": repr(orig)[:80]}, {"value": value},
                          tags=dict(tags, kind="conversion-error-attributes"))


def decorate(lines):
    """Blank and comment lines after every line that opens a section (they count as lines), and
    whitespace characters that are NOT line terminators for readline() (form feed, file separator,
    NEL, U+2028) at line ends or alone on a line: only '\\n' ends a line of a resource."""
    exotic = ["\x0c", "\x1c", "\x85", "\u2028", "\x0b"]
    out = []
    for i, l in enumerate(lines):
        out.append(l + (exotic[i % len(exotic)] if i % 3 == 1 else ""))
        s = l.strip()
        if s.startswith("<") and not s.startswith("</") and not s.endswith("/>"):
            out.append("" if i % 2 == 0 else "  # comment")
            if i % 2 == 0:
                out.append("   " + exotic[(i // 2) % len(exotic)])
    return out


DEEP_SEEDS = [
    [("o", "box", None), ("o", "inner", None), ("k", "k1", "v"), ("c",), ("c",)],
    [("o", "box", "b1"), ("o", "inner", None), ("o", "leaf", "n1"), ("k", "lk", "v"), ("c",), ("c",), ("c",)],
    [("o", "box", None), ("k", "m1", "v"), ("o", "inner", "i1"), ("k", "m2", "7"), ("e", "one", "o1"), ("c",),
     ("e", "need", None) if False else ("k", "k1", "v"), ("c",), ("k", "k2", "7")],
]


def check_seed(S, sch, events, acc, mid, tier, decorated=False, state_axis=False, base=True, addr_axis=False,
               shape_axis=False):
    lines = seed_lines(events)
    if decorated:
        lines = decorate(lines)
    if base:
        acc.states += 1
    if state_axis:
        acc.extra["seeds with the directive-state axis"] += 1
    if addr_axis:
        acc.extra["seeds with the addressing axis"] += 1
    if shape_axis:
        acc.extra["seeds with the line-shape axis"] += 1
    shape_addrs = SHAPE_ADDRESSINGS[tier]
    for layout in layouts(lines, tier):
        flat = flat_context(layout)
        flat_lines = [f[2] for f in flat]
        conts = container_at(flat_lines)
        depth = {MAIN: 0, INC[0]: 1, INC[1]: 2}
        # insertion points: before every line of every resource, and at its end
        points = []
        for url, ls in layout.items():
            for idx in range(len(ls) + 1):
                # flattened position of this insertion point
                if idx < len(ls):
                    tgt = ls[idx]
                    if isinstance(tgt, tuple):
                        subs = [i for i, f in enumerate(flat) if f[0] in _descendants(layout, tgt[1])]
                        if not subs:
                            continue
                        fp = min(subs)
                    else:
                        fp = next(i for i, f in enumerate(flat) if f[0] == url and f[1] == idx)
                else:
                    prev = [i for i, f in enumerate(flat) if f[0] == url]
                    if prev:
                        # after the last own line; included lines in between do not matter for the container
                        last = max(prev)
                        fp = last + 1
                        # if the resource ends with an include, the position is after the included block
                        if isinstance(ls[-1], tuple):
                            subs = [i for i, f in enumerate(flat) if f[0] in _descendants(layout, ls[-1][1])]
                            fp = max(subs + [last]) + 1
                    else:
                        subs = [i for i, f in enumerate(flat) if f[0] in _descendants(layout, url)]
                        fp = (max(subs) + 1) if subs else 0
                points.append((url, idx, fp))
        for url, idx, fp in points:
            tname = conts[fp]
            before, after, used = keys_present(flat_lines, fp)
            for fault in (faults_for(S, tname, before, after, used) if base else ()):
                check_fault(sch, layout, url, idx, fault, acc, mid, depth[url])
            if state_axis:
                for fault in state_faults(S, tname, before, after):
                    check_fault(sch, layout, url, idx, fault, acc, mid, depth[url])
            if addr_axis:
                fl = faults_for(S, tname, before, after, used)
                for addr in ADDRESSINGS[1:]:
                    for fault in fl:
                        check_fault(sch, layout, url, idx, fault, acc, mid, depth[url], addr)
            if shape_axis:
                fl = shape_faults(S, tname, before, after)
                for addr in shape_addrs:
                    for fault in fl:
                        check_fault(sch, layout, url, idx, fault, acc, mid, depth[url], addr)


def _descendants(layout, url):
    out = {url}
    for l in layout.get(url, []):
        if isinstance(l, tuple):
            out |= _descendants(layout, l[1])
    return out


STATE_AXIS_EVERY = {"quick": 8, "thorough": 4}     # seeds (per first event) that get the wave-2 product
SEED_PARTS = {"quick": 1, "thorough": 8}           # shards per first event (balance only: same explored set)
# wave 5: which accepted seeds (numbered per first event) carry the new axes: (modulus, residue)
ADDR_AXIS_SEEDS = {"quick": (16, 2), "thorough": (16, 2)}    # even numbers: the decorated spelling
SHAPE_AXIS_SEEDS = {"quick": (16, 5), "thorough": (32, 5)}   # odd numbers: the plain spelling (thorough: x 7 addressings)


def shard(arg, acc):
    first, depth, tier = arg[:3]
    part, parts = arg[3:5] if len(arg) > 3 else (0, 1)  # the seeds of one first event, dealt round-robin to `parts` shards
    what = arg[5] if len(arg) > 5 else "main"           # "main": base kinds + directive-state axis; "w5": the wave-5 axes
    S2 = schema()
    xml = M.render(S2)
    sch = H.load_schema(xml)
    mid = {"schema": xml}
    n = 0
    cap = 40 if tier == "quick" else 120      # (400 seeds per first event: > 30 minutes on 16 cores since wave 5)
    if first[0] == "deep":
        # the hand-written deep seeds (all ranges as include layouts): one shard per spelling for the base
        # kinds, one more for the directive-state axis on the plain spelling
        ev, dec, part = DEEP_SEEDS[first[1]], first[2], first[3]
        assert H.load(sch, H.render_events(ev))[0] == "ok", ev
        # (the wave-5 parts take the layouts of the tier: in quick every second range, at most two nested ones each)
        check_seed(S2, sch, ev, acc, mid, tier if part in ("addr", "shape") else "thorough", decorated=dec,
                   state_axis=(part == "state"), base=(part == "base"),
                   addr_axis=(part == "addr"), shape_axis=(part == "shape"))
        acc.traces = acc.transitions
        return acc
    for events, d in C.nodes(S2, (first,), depth, lean=True):
        if d.verdict != "A" or len(events) < 2:
            continue
        lines = seed_lines(events)
        if len(lines) > (7 if tier == "quick" else 9):
            continue
        if H.load(sch, H.render_events(events))[0] != "ok":
            acc.extra["seed_disagreements"] += (part == 0)
            continue
        n += 1
        if n > cap:
            acc.extra["seeds_beyond_cap"] += (part == 0)
            continue
        if n % parts != part:
            continue
        if what == "w5":
            am, ar = ADDR_AXIS_SEEDS[tier]
            sm, sr = SHAPE_AXIS_SEEDS[tier]
            if n % am == ar or n % sm == sr:
                check_seed(S2, sch, events, acc, mid, tier, decorated=(n % 2 == 0), base=False,
                           addr_axis=(n % am == ar), shape_axis=(n % sm == sr))
            continue
        check_seed(S2, sch, events, acc, mid, tier, decorated=(n % 2 == 0),
                   state_axis=(n % STATE_AXIS_EVERY[tier] == 1 % STATE_AXIS_EVERY[tier]))
    acc.traces = acc.transitions
    return acc


def run(tier):
    S = schema()
    firsts = M.lean_vocabulary(S, None, False)
    depth = 4 if tier == "quick" else 5
    run = core.Run(
        "C08", tier, "model_checking",
        rule="seeds = accepted texts from the reference BFS (depth %d after each first event, capped per first "
             "event) over a purpose-built schema whose containers admit every fault kind; per seed: one resource, "
             "or a balanced range moved into an included resource, or two nested includes (in-memory resources with "
             "distinct URLs); at every line position of every resource, one fault of each applicable kind (~35 kinds: "
             "malformed lines, directives, defines, substitutions, unknown / repeated / refused keys, unconvertible "
             "values, unknown / misplaced / badly named headers, reused names, over-filled slots, missing required "
             "items, rejecting section datatype - sections in both spellings).  states = seeds, transitions = faulty "
             "loads.  Non-trivial = culprit not on line 1 of the main resource.  "
             "Directive-state axis (every %s seed of each first event, and the hand-written deep seeds, at every line "
             "position of every resource of every layout): the full product carrier (%s) x construct (%s) x history = "
             "where the earlier %%define of the name that the faulty line refers to or repeats lives (%s; "
             "'main-top' is the including resource for a fault in an included one, 'sibling-resource' a resource "
             "included before, 'defined-twice' = top of main plus a legal repeat on the previous line), plus per history "
             "a conflicting redefinition (plain and after expansion) of a name defined there, a value that is "
             "unconvertible only through a name defined there (culprit = the value's line, not the definition's), and "
             "per carrier a use of a name defined only on the next line.  "
             "Wave 5, addressing axis (seeds no. %d mod %d of each first event - decorated spelling - and the decorated "
             "deep seeds; every line position of every resource of every layout; every base fault kind): the main "
             "resource is opened in each of the ways %s (how it gets its URL / how %%include lines refer to the other "
             "resources); with no-url, empty-url-argument and pseudo-file-name the main resource HAS NO URL: an error "
             "whose culprit is there must carry url None and the right line all the same.  "
             "Wave 5, line-shape axis (seeds no. %d mod %d - plain spelling - and the plain deep seeds; every line "
             "position of every resource of every layout; under the addressings %s): every fault family whose culprit "
             "is a key line (%s) x key spelling (%s) x value shape (%s; for a repeated key also the first occurrence "
             "in the shapes %s); a conversion error must carry the text after expansion ('' for a key without value)." % (
                 depth, {1: "single", 2: "2nd", 4: "4th", 8: "8th"}[STATE_AXIS_EVERY[tier]], ", ".join(CARRIERS),
                 ", ".join(c[0] for c in CONSTRUCTS), ", ".join(HISTORIES),
                 ADDR_AXIS_SEEDS[tier][1], ADDR_AXIS_SEEDS[tier][0], ", ".join(addr_label(x) for x in ADDRESSINGS),
                 SHAPE_AXIS_SEEDS[tier][1], SHAPE_AXIS_SEEDS[tier][0],
                 ", ".join(addr_label(x) for x in SHAPE_ADDRESSINGS[tier]), ", ".join(SHAPE_FAMILIES),
                 ", ".join(x[0] for x in KEY_SPELLINGS), ", ".join(x[0] for x in VALUE_SHAPES), ", ".join(FIRST_SHAPES)),
        bounds={"first_events": len(firsts), "depth": depth,
                "state_axis": {"carriers": CARRIERS, "constructs": [c[1] for c in CONSTRUCTS], "histories": HISTORIES,
                               "seeds": "every %d. accepted seed per first event + %d deep seeds (plain spelling)"
                                        % (STATE_AXIS_EVERY[tier], len(DEEP_SEEDS)),
                               "positions": "every line position of every resource of every layout of those seeds"},
                "addressing_axis": {"addressings (main resource opened as / include references)":
                                        [addr_label(x) for x in ADDRESSINGS],
                                    "main resource without URL under": list(URLLESS),
                                    "fault kinds": "all base kinds",
                                    "seeds": "accepted seed no. %d mod %d per first event (decorated) + %d deep seeds "
                                             "(decorated; layouts of the tier)" % (ADDR_AXIS_SEEDS[tier][1],
                                                                                  ADDR_AXIS_SEEDS[tier][0], len(DEEP_SEEDS)),
                                    "positions": "every line position of every resource of every layout of those seeds"},
                "line_shape_axis": {"families": SHAPE_FAMILIES, "key_spellings": [x[0] for x in KEY_SPELLINGS],
                                    "value_shapes": {x[0]: "key" + x[1] + ("   (after: %s)" % "; ".join(x[2]) if x[2] else "")
                                                     for x in VALUE_SHAPES},
                                    "first_occurrence_shapes_of_a_repeated_key": FIRST_SHAPES,
                                    "addressings": [addr_label(x) for x in SHAPE_ADDRESSINGS[tier]],
                                    "seeds": "accepted seed no. %d mod %d per first event (plain) + %d deep seeds (plain; "
                                             "layouts of the tier)" % (SHAPE_AXIS_SEEDS[tier][1], SHAPE_AXIS_SEEDS[tier][0],
                                                                      len(DEEP_SEEDS)),
                                    "positions": "every line position of every resource of every layout of those seeds"}},
        assumptions=["culprit line known by construction: seeds are accepted texts, one fault injected",
                     "which of two errors is reported when a fault implies two is not compared (single faults only)"])
    import os
    if UNSET_ENV in os.environ:
        raise core.HarnessError("environment variable %s must not be set" % UNSET_ENV)
    deep = [(("deep", i, dec, part), depth, tier) for i in range(len(DEEP_SEEDS))
            for dec, part in ((False, "base"), (False, "state"), (True, "base"), (True, "addr"), (False, "shape"))]
    parts = SEED_PARTS[tier]
    core.pmap(shard, deep + [(ev, depth, tier, k, parts, what) for what in ("main", "w5") for ev in firsts
                             for k in range(parts)], run.acc, shard_budget=3000.0)
    a = run.acc
    kinds = [k for k in a.classes if k.startswith("rejected:") and not k.startswith(("rejected:sub/", "rejected:shape/"))]
    run.require(len(kinds) >= 30, "only %d fault kinds exercised" % len(kinds))
    run.require(a.states >= 20, "few seeds")
    # the directive-state axis was really walked: every carrier x construct x history cell rejected somewhere,
    # every history with the fault in the main resource and in an included one at both depths
    cells = [k for k in a.classes if k.startswith("rejected:sub/")]
    want = len(CARRIERS) * len(HISTORIES) * len(CONSTRUCTS) - len(CONSTRUCTS) - BASE_CONSTRUCTS
    prod = [k for k in cells if k.split("/")[2] in [c[0] for c in CONSTRUCTS]]
    run.require(len(prod) == want, "directive-state product: %d of %d cells rejected" % (len(prod), want))
    run.require(len(cells) >= want + 5 + 7 + 8, "history-dependent kinds without a bad '$': only %d" % (len(cells) - len(prod)))
    for h in HISTORIES + ["next-line"]:
        for w in ("main", "included-1", "included-2"):
            n = a.extra["axis history=%s fault-in=%s" % (h, w)]
            run.require(n >= 50, "history %s with the fault in %s: only %d loads" % (h, w, n))
    run.require(a.extra["seeds with the directive-state axis"] >= 20, "few seeds carry the directive-state axis")
    # wave 5, addressing: every addressing met >= 30 base kinds, with the culprit in the main resource and in included
    # ones at both depths; culprits in a URL-less main resource were rejected, among them values that are only
    # converted when a later line closes their section
    for addr in ADDRESSINGS[1:]:
        al = addr_label(addr)
        nk = len([k for k in a.classes if k.startswith("rejected[%s]:" % al)])
        run.require(nk >= 30, "addressing %s: only %d base fault kinds rejected" % (al, nk))
        for w in ("main", "included-1", "included-2"):
            n = a.extra["axis addressing=%s fault-in=%s" % (al, w)]
            run.require(n >= 1000, "addressing %s with the fault in %s: only %d loads" % (al, w, n))
    run.require(a.extra["seeds with the addressing axis"] >= 20, "few seeds carry the addressing axis")
    n = a.extra["culprit in a main resource that has no URL: rejected"]
    run.require(n >= 10000, "culprit in a URL-less main resource: only %d rejected loads" % n)
    n = a.extra["unconvertible value in a URL-less main resource, converted when a later line closes the section"]
    run.require(n >= 1000, "values converted at a later closing line of a URL-less main resource: only %d" % n)
    # wave 5, line shape: every family x spelling x shape cell rejected somewhere; every shape with the culprit in
    # each kind of resource; every addressing of the tier; bare key lines really occurred
    cells = [k for k in a.classes if k.startswith("rejected:shape/")]
    per = len(KEY_SPELLINGS) * len(VALUE_SHAPES)
    want = (len(SHAPE_FAMILIES) * per - 2      # (as-declared, literal) of unknown-key / refused key are base kinds
            + len(FIRST_SHAPES) * per)         # repeated-key: key already present | x first-occurrence shapes
    run.require(len(cells) == want, "line-shape product: %d of %d cells rejected" % (len(cells), want))
    for fam in SHAPE_FAMILIES:
        n = a.extra["axis shape family=%s" % fam]
        run.require(n >= 1000, "line-shape family %s: only %d loads" % (fam, n))
    for sh in VALUE_SHAPES:
        for w in ("main", "included-1", "included-2"):
            n = a.extra["axis shape value-shape=%s fault-in=%s" % (sh[0], w)]
            run.require(n >= 1000, "value shape %s with the fault in %s: only %d loads" % (sh[0], w, n))
    for addr in SHAPE_ADDRESSINGS[tier]:
        n = a.extra["axis shape addressing=%s" % addr_label(addr)]
        run.require(n >= 10000, "line shapes under addressing %s: only %d loads" % (addr_label(addr), n))
    n = a.extra["culprit is a key line without any value text: rejected"]
    run.require(n >= 10000, "bare key lines as culprit: only %d rejected loads" % n)
    run.require(a.extra["seeds with the line-shape axis"] >= 20, "few seeds carry the line-shape axis")
    return run


def replay(body):
    case = body["case"]
    rc = 0
    for _ in range(2):
        sch = H.load_schema(case["member"]["schema"])
        addr = tuple(case.get("addressing") or DEFAULT_ADDR)
        exp_url = case.get("culprit_url", case["resource"]) if "addressing" in case else case["resource"]
        r = load_addressed(sch, case["files"], addr)
        print("main resource opened as:", addr_label(addr))
        for u, t in case["files"].items():
            print("--- %s\n%s" % (u, t), end="")
        e = r[1]
        print("fault:", case["fault"], "culprit:", case["resource"], "line", case["culprit_line"], "expected url:", exp_url)
        print("observed:", r[0], type(e).__name__, "lineno=%r url=%r" % (getattr(e, "lineno", "<absent>"), getattr(e, "url", "<absent>")), str(e)[:100])
        if r[0] != "rejected" or getattr(e, "lineno", None) != case["culprit_line"] or getattr(e, "url", "<absent>") != exp_url:
            rc = 1
    return rc
