"""Reference rules for schema DOCUMENTS used by C10 (nothing here imports ZConfig).

Two independent pieces, both transcribed from the documentation, not from the parser:

* the content model of docs/schema.dtd (which element may be a child of which; the four
  text-only elements have no element children; only they may carry text);
* the per-container naming rule of the statement: the names declared in one container
  (schema or section type) are unique after normalisation with THAT container's key type,
  the attribute names (given, or derived from the normalised name) are unique, and every
  name is well formed under that key type - inherited entries included.
"""
import re

TEXT_ONLY = ("description", "metadefault", "example", "default")
STRUCTURAL = ("schema", "component", "import", "sectiontype", "abstracttype",
              "key", "multikey", "section", "multisection")

# docs/schema.dtd: <!ELEMENT parent (children...)>   (order and cardinality are not "nesting")
DTD_CHILDREN = {
    "schema": ("description", "metadefault", "example", "import", "sectiontype", "abstracttype",
               "section", "key", "multisection", "multikey"),
    "component": ("description", "sectiontype", "abstracttype"),
    "import": (),
    "description": (), "metadefault": (), "example": (), "default": (),
    "sectiontype": ("description", "example", "section", "key", "multisection", "multikey"),
    "abstracttype": ("description",),
    "key": ("description", "metadefault", "example", "default"),
    "multikey": ("description", "metadefault", "example", "default"),
    "section": ("description", "example"),
    "multisection": ("description", "example"),
}

# (child, parent) cells on which the DTD and the implementation's own published table disagree and the
# statement cannot decide: the DTD header says "not all documents that conform to this DTD are legal"
# (metadefault under schema is refused), ZConfig's own shipped components use <import> inside <component>,
# and <metadefault> inside <section>/<multisection> is stored like everywhere else (the check's older
# rule-preserving operator already relies on it).  Only totality is checked there.
UNSPEC_CELLS = {("metadefault", "schema"), ("metadefault", "section"), ("metadefault", "multisection"),
                ("import", "component")}

# every tag tried as a child: the DTD vocabulary plus one tag the DTD does not know
CHILD_TAGS = ("description", "metadefault", "example", "default", "import", "sectiontype", "abstracttype",
              "key", "multikey", "section", "multisection", "schema", "component", "bogus")


def nesting(child, parent):
    """-> 'legal' | 'illegal' | 'unspecified' for `child` as an element child of `parent`."""
    if parent in TEXT_ONLY:
        return "illegal"                      # (#PCDATA)* : no element children at all
    if (child, parent) in UNSPEC_CELLS:
        return "unspecified"
    return "legal" if child in DTD_CHILDREN.get(parent, ()) else "illegal"


# ---------------------------------------------------------------------------
# key types (from the standard-datatype documentation)

_BASIC = re.compile(r"[a-zA-Z][-._a-zA-Z0-9]*\Z")
_IDENT = re.compile(r"[_a-zA-Z][_a-zA-Z0-9]*\Z")
LOWER_KEY = "vz.harness.dt.lower_key"


def norm(keytype, s):
    """The normalised name, or None when `s` is not a value of the key type."""
    kt = keytype or "basic-key"
    if kt == "basic-key":
        return s.lower() if _BASIC.match(s) else None
    if kt == "identifier":
        return s if _IDENT.match(s) else None
    if kt == LOWER_KEY:
        return s.lower() if _IDENT.match(s) else None      # ASCII identifier characters, lower-cased
    raise ValueError(kt)


def derived_attribute(normname):
    a = normname.lower().replace("-", "_")
    return a if _IDENT.match(a) else None


def judge_container(keytype, items, inherited=(), explicit_keytype=None):
    """items: sequence of (kind, spelling, attribute-or-None); kind in key / multikey / section.
    inherited: entries (cls, normalised name, attribute) of the base type (already judged acceptable).
    -> (verdict, clause, entries) with verdict in accept / reject / unspecified.

    Unspecified: a key and a section sharing one normalised name (the statement speaks of unique KEY
    names); a derived type that changes the key type while an inherited name is not a fixed point of
    the new key type (declared names are not re-normalised - DESIGN C11)."""
    names = {}
    attrs = set()
    entries = list(inherited)
    unspec = None
    reject = None
    for cls, n, a in inherited:
        names[n] = cls
        attrs.add(a)
        if explicit_keytype is not None and norm(explicit_keytype, n) != n:
            unspec = "inherited-name-not-a-fixed-point-of-new-keytype"
    for kind, sp, attr in items:
        n = norm(keytype, sp)
        if n is None:
            reject = reject or "name-invalid-under-keytype"
            continue
        a = attr or derived_attribute(n)
        if a is None:
            reject = reject or "derived-attribute-malformed"
            continue
        cls = "s" if kind == "section" else "k"
        if n in names:
            if names[n] == cls:
                reject = reject or "duplicate-name-after-normalisation"
            else:
                unspec = unspec or "key-and-section-share-a-name"
        if a in attrs:
            reject = reject or "duplicate-attribute"
        names.setdefault(n, cls)
        attrs.add(a)
        entries.append((cls, n, a))
    if reject:
        return "reject", reject, entries
    if unspec:
        return "unspecified", unspec, entries
    return "accept", "all-names-and-attributes-unique", entries
