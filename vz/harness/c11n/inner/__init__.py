"""One level of a homonym tree (see vz.harness.c11names)."""
from vz.harness.c11names import publish

conv, key, sect = publish(__name__)
