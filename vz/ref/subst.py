"""Reference model of $-substitution (C04) and of the %define namespace (C05).

Written from the property statements, as an index-walking scanner; no regular
expressions, no code shared with ZConfig.substitution.
"""

ASCII_LETTERS = "abcdefghijklmnopqrstuvwxyzABCDEFGHIJKLMNOPQRSTUVWXYZ"
NAME_START = frozenset(ASCII_LETTERS + "_")
NAME_CHAR = frozenset(ASCII_LETTERS + "_0123456789")

OK, SAME, SYNTAX, MISSING, UNSPEC = "ok", "same", "syntax", "missing", "unspec"


def _unspec_char(c):
    # The statement says "letter"; whether a non-ASCII letter/digit may be part
    # of a name is not fixed by it, so such characters adjacent to a name
    # position make the case unspecified (totality is still checked).
    return ord(c) > 127 and (c.isalnum() or c == "ª" or c.isidentifier())


def scan_name(s, j):
    """Return (k, unspec): s[j:k] is the maximal name starting at j (k == j
    when there is none)."""
    n = len(s)
    if j >= n:
        return j, False
    if s[j] not in NAME_START:
        return j, _unspec_char(s[j])
    k = j + 1
    while k < n and s[k] in NAME_CHAR:
        k += 1
    if k < n and _unspec_char(s[k]):
        return k, True
    return k, False


def is_name(s):
    """(verdict, unspec)"""
    if not s:
        return False, False
    k, unspec = scan_name(s, 0)
    if unspec:
        return None, True
    return k == len(s), False


def substitute(s, lookup_define, lookup_env):
    """Return (OK, text) | (SAME,) | (SYNTAX,) | (MISSING, name_as_written) | (UNSPEC,).

    lookup_define(lowercased name) and lookup_env(name as written) return a
    string or None."""
    if "$" not in s:
        return (SAME,)
    out = []
    i, n = 0, len(s)
    while i < n:
        c = s[i]
        if c != "$":
            out.append(c)
            i += 1
            continue
        if i + 1 >= n:
            return (SYNTAX,)
        d = s[i + 1]
        if d == "$":
            out.append("$")
            i += 2
            continue
        if d == "{" or d == "(":
            j = i + 2
            k, unspec = scan_name(s, j)
            if unspec:
                return (UNSPEC,)
            if k == j:
                return (SYNTAX,)
            closer = "}" if d == "{" else ")"
            if k >= n or s[k] != closer:
                return (SYNTAX,)
            name = s[j:k]
            v = lookup_define(name.lower()) if d == "{" else lookup_env(name)
            if v is None:
                return (MISSING, name)
            out.append(v)
            i = k + 1
        else:
            j = i + 1
            k, unspec = scan_name(s, j)
            if unspec:
                return (UNSPEC,)
            if k == j:
                return (SYNTAX,)
            name = s[j:k]
            v = lookup_define(name.lower())
            if v is None:
                return (MISSING, name)
            out.append(v)
            i = k
    return (OK, "".join(out))


def references(s):
    """All (kind, key) references a left-to-right scan can reach when every
    name has a value: kind 'd' keys are lower-cased, kind 'e' keys as written."""
    refs = []

    def d(name):
        if ("d", name) not in refs:
            refs.append(("d", name))
        return ""

    def e(name):
        if ("e", name) not in refs:
            refs.append(("e", name))
        return ""

    substitute(s, d, e)
    return refs


class DefineSpace:
    """Reference model of the %define namespace of one load (C05)."""

    def __init__(self):
        self.defs = {}

    def lookup(self, lname):
        return self.defs.get(lname)

    def expand(self, text, env=None):
        env = env or (lambda n: None)
        return substitute(text, self.lookup, env)

    def define(self, name, rawvalue):
        """-> 'ok' | 'syntax' (rejected as configuration syntax error) |
        ('missing', name) | 'substsyntax' | 'unspec'.

        name is as written; one case-insensitive namespace; the value is
        expanded once, now, with the definitions read so far; redefinition is
        accepted exactly when the new expanded value equals the current one."""
        lname = name.lower()
        ok, unspec = is_name(lname)
        if unspec:
            return "unspec"
        r = self.expand(rawvalue)
        # Which error wins when several apply is not fixed by the statement;
        # callers treat any rejection as agreeing with any other rejection
        # unless exactly one cause applies.
        causes = []
        if not ok:
            causes.append("syntax")
        if r[0] == SYNTAX:
            causes.append("substsyntax")
        elif r[0] == MISSING:
            causes.append(("missing", r[1]))
        elif r[0] == UNSPEC:
            return "unspec"
        value = rawvalue if r[0] == SAME else (r[1] if r[0] == OK else None)
        if value is not None and ok and lname in self.defs and self.defs[lname] != value:
            causes.append("syntax")
        if causes:
            return causes if len(causes) > 1 else causes[0]
        self.defs[lname] = value
        return "ok"
