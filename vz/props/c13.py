"""C13 - a schema object can be reused indefinitely: loads neither depend on nor alter it.

Engine E2: operations {load valid text (defaults only / everything supplied), load
invalid text with the fault at each stage (syntax, matching, key conversion, value
conversion, section datatype, top-level finish), load with '%import', load with
overrides (convertible / unconvertible), mutate every list/dict reachable from the
last returned configuration} against ONE schema object.  All sequences up to depth
d explicitly, each step compared with the same operation on a freshly loaded
schema (differential) and with the structural digest of the schema before; then a
breadth-first search to depth 8 with state = digest(schema).

Wave 5 - the datatype-NAME axis.  The one object that the application schema, the per-load
derived schema and the SchemaLoader made for '%import' all share besides the abstract types
is the datatype registry.  A family of importable components, one per (shape of the datatype
name x place where the name stands), is loaded in every order against one schema object:
stock name, stock name in another case, dotted name the application schema already resolved,
dotted name FIRST resolved during a load, the same relative to the component's prefix, a dotted
name whose last component is a stock name, every proper component-wise suffix and prefix of
that dotted name as a name of its own, the last component of a dotted name the schema knows,
an unresolvable dotted name, the dotted name in another case.  Oracles: the fresh-schema
differential, a reference for which shapes resolve at all, and a model of the registry's memo
(only full dotted names that a load legitimately resolved may appear in it, each bound to the
object an independent import finds).
"""
import importlib
import itertools

from vz import core
from vz.gen import schema as M
from vz.harness import load as H
from vz.harness import pkgs
from vz.harness.dt import Wrapped
from vz.props import c12

SINT = "vz.harness.dt.strict_int"


def schema_model():
    leaf = M.SType("leaf", (M.Key("lk", default="d"), M.MultiKey("lm", defaults=("x", "y"))),
                   datatype="vz.harness.dt.reject_section")
    impl = M.SType("impl", (M.Key("ik", SINT, default="3"),), implements="a")
    box = M.SType("box", (M.Key("+", attribute="opts", default=(("Da", "1"), ("db", "2"))),
                          M.MultiKey("bm", SINT, defaults=("1", "2")),
                          # defaults whose CONVERTED value is mutable (a list per default)
                          M.MultiKey("bl", "string-list", defaults=("a b", "c")),
                          M.Key("bs", "string-list", default="x y"),
                          M.Sect("*", "leaf", attribute="leaves", multi=True)))
    derived = M.SType("dbox", (M.Key("extra", default="e"),), extends="box", keytype="identifier")
    # a type with keyed wildcard defaults that NOTHING in the schema itself derives from (a component does, at load
    # time, under another key type)
    wbox = M.SType("wbox", (M.Key("+", attribute="wopts", default=(("Da", "1"), ("db", "2"))),))
    return M.Schema(
        types=(M.AType("a"), leaf, impl, box, derived, wbox),
        items=(M.Key("k1", SINT, default="7"), M.MultiKey("m1", defaults=("dv", "dw")),
               M.MultiKey("+", "string-list", attribute="wild", defaults=(("Da", "x y"), ("da", "y"), ("db", "z"))),
               M.Key("req", required=True),
               M.Sect("*", "box", attribute="boxes", multi=True),
               M.Sect("*", "dbox", attribute="dboxes", multi=True),
               M.Sect("*", "wbox", attribute="wboxes", multi=True),
               M.Sect("*", "a", attribute="impls", multi=True),
               M.Sect("n1", "leaf"),
               # a catch-all slot of the same type AFTER the named one: which slot a section lands in depends on
               # its name only, never on what earlier sections / loads did
               M.Sect("*", "leaf", attribute="leaves", multi=True)))


def make_packages(P):
    """C12's packages plus a component whose type EXTENDS a section type of the application schema under another
    key type: deriving it at load time must not touch the application schema's own (shared) infos."""
    plist = list(c12.make_packages(P))
    plist.append(P.add_component("px", [M.SType("pxbox", (M.Key("xk", default="x"),), extends="wbox",
                                                keytype="identifier")]))
    return plist


def operations(plist):
    pa, pb, pc = plist[:3]
    px = plist[-1]
    ops = [
        ("valid-defaults", "req r\n", ()),
        ("valid-everything", "req r\nk1 9\nm1 a\nm1 b\nzz 1\nZZ 2\n<box b1>\n  xx 5\n  bm 4\n  <leaf/>\n  <leaf l2>\n    lm q\n  </leaf>\n</box>\n"
                             "<dbox>\n  Key v\n</dbox>\n<impl/>\n<leaf n1>\n  lk v\n</leaf>\n", ()),
        ("fault-syntax", "req r\n<box\n", ()),
        ("fault-matching", "req r\n<box>\n  <impl/>\n</box>\n", ()),
        ("fault-key-conversion", "req r\n1x v\n", ()),
        ("fault-value-conversion", "req r\n<box>\n  bm 1O\n</box>\n", ()),
        ("fault-default-after-value", "req r\nk1 x\n", ()),
        ("fault-section-datatype", "req r\n<box>\n  <leaf>\n    lk x\n  </leaf>\n</box>\n", ()),
        ("fault-top-level-finish", "k1 1\n", ()),
        ("import-and-use", "req r\n%%import %s\n<pa1/>\n" % pa, ()),
        ("import-other-definition", "req r\n%%import %s\n<pa1/>\n" % pc, ()),
        ("leaf-into-catch-all", "req r\n<leaf other>\n  lk w\n</leaf>\n<leaf/>\n", ()),
        ("leaf-into-named-slot", "req r\n<leaf n1>\n  lk v\n</leaf>\n<leaf other/>\n", ()),
        ("import-extender-of-own-type", "req r\n%%import %s\n<wbox/>\n" % px, ()),
        ("wildcard-defaults-of-that-type", "req r\n<wbox/>\n", ()),
        ("use-without-import", "req r\n<pa1/>\n", ()),
        # a second, different component: what one load imported must not be there for the next
        ("import-second-and-use", "req r\n%%import %s\n<pb1/>\n" % pb, ()),
        ("import-second-use-first", "req r\n%%import %s\n<pa1/>\n" % pb, ()),
        ("import-both-and-use", "req r\n%%import %s\n%%import %s\n<pa1/>\n<pb1/>\n" % (pa, pb), ()),
        ("overrides-valid", "req r\n<box b1>\n  bm 4\n</box>\n", ("b1/bm=9", "k1=5", "m1=o")),
        ("overrides-unconvertible", "req r\n<box b1>\n</box>\n", ("b1/bm=zz",)),
        ("mutate-last-result", None, ()),
    ]
    return ops


# ---------------------------------------------------------------------------
# wave 5: the datatype-name axis

CONV_MODULE = "vzcv"
CONV_SOURCE = '''"""datatype functions first resolved while a configuration is loaded (C13, datatype-name axis)"""
from vz.harness.dt import Wrapped2


def shout(v):
    return "shout:" + v.upper() if isinstance(v, str) else Wrapped2(v)


def integer(v):
    """carries the NAME of a stock datatype as its last component, and converts differently"""
    return "mine:" + v if isinstance(v, str) else Wrapped2(v)


null = integer
'''

DT_PLACES = ("key", "section")          # <key datatype=...> / <sectiontype datatype=...>
DT_KNOWN = {"key": SINT, "section": "vz.harness.dt.reject_section"}      # both resolved when the schema was parsed
DT_STOCK = {"key": "integer", "section": "null"}
# legacy operations that join the family in the sequences: a plain load, a failed load, an import of an unrelated
# component, the mutation of the last result
DT_CONTEXT_OPS = ("valid-defaults", "fault-value-conversion", "import-and-use", "mutate-last-result")


def dt_shapes(T, place):
    """(shape, datatype name, reference outcome, dotted names a load may memoize in the registry, component prefix).

    Reference (documentation of Registry.get/search and of the 'prefix' attribute): a name without a dot is
    lower-cased and must be a stock (or registered) name, otherwise the component is refused (SchemaError -> 'R');
    a name with a dot is imported component by component, case-sensitively, and used as found ('A'); a name that
    starts with a dot is appended to the prefix first; what a failing import raises is not specified ('X': any
    error, but never accepted - and the same error whatever the schema served before)."""
    stock, known = DT_STOCK[place], DT_KNOWN[place]
    full = "%s.%s.shout" % (T, CONV_MODULE)
    return (
        ("stock", stock, "A", (), None),
        ("stock-other-case", stock.capitalize(), "A", (), None),
        ("dotted-known-to-schema", known, "A", (known,), None),
        ("dotted-new", full, "A", (full,), None),
        ("dotted-new-relative-to-prefix", ".%s.shout" % CONV_MODULE, "A", (full,), T),
        ("dotted-new-last-component-stock", "%s.%s.%s" % (T, CONV_MODULE, stock), "A",
         ("%s.%s.%s" % (T, CONV_MODULE, stock),), None),
        ("suffix-1-of-new", "shout", "R", (), None),
        ("suffix-1-of-new-other-case", "Shout", "R", (), None),
        ("suffix-2-of-new", "%s.shout" % CONV_MODULE, "X", (), None),
        ("prefix-1-of-new", T, "R", (), None),
        ("prefix-2-of-new", "%s.%s" % (T, CONV_MODULE), "X", ("%s.%s" % (T, CONV_MODULE),), None),
        ("suffix-1-of-known", known.rsplit(".", 1)[1], "R", (), None),
        ("dotted-unresolvable", "%s.%s.nothere" % (T, CONV_MODULE), "X", (), None),
        ("dotted-new-other-case", "%s.%s.Shout" % (T, CONV_MODULE), "X", (), None),
    )


N_SHAPES = 14
N_DT_OPS = len(DT_CONTEXT_OPS) + N_SHAPES * len(DT_PLACES)


def dt_operations(P):
    """One component per (shape, place), each defining ONE section type that implements 'a' and has a key 'dk';
    the operation imports the component and uses the type with a value.  -> (operations, meta by operation name)"""
    T = P.add_component("pt", [], extra_files={CONV_MODULE + ".py": CONV_SOURCE})
    ops, meta = [], {}
    for pi, place in enumerate(DT_PLACES):
        for si, (shape, dtname, want, memo, prefix) in enumerate(dt_shapes(T, place)):
            tname = "d%s%d" % (place[0], si)
            t = M.SType(tname, (M.Key("dk", dtname if place == "key" else "string"),), implements="a",
                        datatype=dtname if place == "section" else None)
            pkg = P.add_component("dt%s%d" % (place[0], si), [t], prefix=prefix)
            name = "datatype-name:%s:%s" % (place, shape)
            ops.append((name, "req r\n%%import %s\n<%s>\n  dk 12\n</%s>\n" % (pkg, tname, tname), ()))
            meta[name] = {"place": place, "shape": shape, "datatype": dtname, "want": want, "memo": memo,
                          "new": shape.startswith("dotted-new") and want == "A",
                          "part": shape.startswith(("suffix-", "prefix-", "dotted-new-other-case"))}
    return ops, meta


# depth 4 (thorough) only below two-operation prefixes drawn from the operations that put something into the registry,
# fail while doing so, or ask for a part of what was put there (positions in the alphabet: context operations first,
# then the shapes at the key place, then at the section place)
DT_CORE = ("fault-value-conversion", "import-and-use", "mutate-last-result",
           "datatype-name:key:dotted-new", "datatype-name:key:dotted-new-relative-to-prefix",
           "datatype-name:key:dotted-new-last-component-stock", "datatype-name:key:suffix-1-of-new",
           "datatype-name:key:prefix-2-of-new", "datatype-name:key:dotted-unresolvable",
           "datatype-name:key:dotted-new-other-case", "datatype-name:section:dotted-new",
           "datatype-name:section:dotted-new-last-component-stock")


def dt_alphabet_names():
    names = [n for n in DT_CONTEXT_OPS]
    for place in DT_PLACES:
        names += ["datatype-name:%s:%s" % (place, sh[0]) for sh in dt_shapes("T", place)]
    return names


def dt_shards(dt_depth):
    names = dt_alphabet_names()
    shards = [("self-test-dt", (), 0, None)]
    if dt_depth <= 3:
        return shards + [("explicit-dt", (i,), dt_depth, None) for i in range(N_DT_OPS)]
    core_ix = [names.index(n) for n in DT_CORE]
    shards += [("explicit-dt", (i,), 1, None) for i in range(N_DT_OPS)]
    shards += [("explicit-dt", (i, j), dt_depth if (i in core_ix and j in core_ix) else 3, None)
               for i in range(N_DT_OPS) for j in range(N_DT_OPS)]
    return shards


def resolve_independently(name):
    """What a dotted name denotes, found with importlib only."""
    parts = name.split(".")
    obj = importlib.import_module(parts[0])
    for i, part in enumerate(parts[1:], 2):
        try:
            obj = getattr(obj, part)
        except AttributeError:
            obj = importlib.import_module(".".join(parts[:i]))
    return obj


def registry_memo(sch):
    reg = getattr(sch, "registry", None)
    return dict(getattr(reg, "_other", None) or {})


def check_registry(sch, initial, allowed, acc, case, opname):
    """Model of the registry's memo: the names it held when the schema was loaded, plus full dotted names that a
    load of the history resolved - nothing else, and each bound to what an independent import finds."""
    now = registry_memo(sch)
    for k in sorted(set(now) - set(initial) - allowed, key=repr):
        acc.violation("registry-answers-a-name-no-load-resolved", case, [repr(k), repr(now[k])[:120]],
                      "memo holds only the schema's own names and full dotted names resolved by a load",
                      tags={"kind": "registry-memo", "what": "unexplained-name",
                            "name_shape": "dotted" if "." in str(k) else "bare"})
        return False
    for k in sorted(set(initial) - set(now), key=repr):
        acc.violation("registry-lost-a-name", case, repr(k), "names of the schema stay",
                      tags={"kind": "registry-memo", "what": "lost-name"})
        return False
    for k in sorted(now, key=repr):
        if k in initial:
            if now[k] is not initial[k]:
                acc.violation("registry-name-rebound", case, [repr(k), repr(now[k])[:120]], repr(initial[k])[:120],
                              tags={"kind": "registry-memo", "what": "rebound-name"})
                return False
        elif now[k] is not resolve_independently(k):
            acc.violation("registry-name-bound-to-wrong-object", case, [repr(k), repr(now[k])[:120]],
                          repr(resolve_independently(k))[:120],
                          tags={"kind": "registry-memo", "what": "wrong-object"})
            return False
    return True


def strip_registry(d):
    return tuple(row for row in d if row[0] != "registry-other")


def containers(v, out):
    if isinstance(v, Wrapped):
        containers(v.inner, out)
    elif hasattr(v, "getSectionAttributes"):
        for a in v.getSectionAttributes():
            containers(getattr(v, a), out)
    elif isinstance(v, list):
        out.append(v)
        for x in list(v):
            containers(x, out)
    elif isinstance(v, dict):
        out.append(v)
        for x in list(v.values()):
            containers(x, out)


def mutate(cfg):
    cs = []
    containers(cfg, cs)
    for c in cs:
        if isinstance(c, list):
            c.append("<mutated>")
            if len(c) > 1:
                c[0] = "<mutated>"
        else:
            c["<mutated>"] = "<mutated>"
            for k in list(c):
                c[k] = "<mutated>"
    return len(cs)


def outcome(sch, text, overrides, lenient=False):
    """`lenient`: the operation is one whose failure the documentation leaves unspecified (a dotted datatype name
    that cannot be imported): any exception is then an outcome ('X', class), compared like the others."""
    r = H.load(sch, text, overrides=list(overrides))
    if r[0] == "ok":
        return ("A", H.tree(r[1])), r[1]
    if r[0] == "rejected":
        return ("R", type(r[1]).__name__), None
    if lenient:
        return ("X", type(r[1]).__name__), None
    return ("I", core.exc_desc(r[1])), None


IMPORT_OPS = ("import-extender-of-own-type", "import-and-use", "import-other-definition", "import-second-and-use", "import-second-use-first",
              "import-both-and-use")


def run_sequence(xml, ops, seq, acc, mid, fresh_outcomes, meta=None):
    """Apply the operation sequence to one schema object; compare every step.  With `meta` (datatype-name axis)
    the registry's memo is compared with its model instead of being required to stay as it was."""
    sch = H.load_schema(xml)
    d0 = H.schema_digest(sch)
    if meta is not None:
        d0 = strip_registry(d0)
        reg0, allowed = registry_memo(sch), set()
        new_before, reg_ok = False, True
    last = None
    imported_before = False
    for step, oi in enumerate(seq):
        name, text, ovr = ops[oi]
        m = meta.get(name) if meta is not None else None
        acc.ev()
        acc.transitions += 1
        case = {"member": mid, "sequence": [ops[i][0] for i in seq[:step + 1]],
                "texts": [ops[i][1] for i in seq[:step + 1]], "overrides": [list(ops[i][2]) for i in seq[:step + 1]]}
        if text is None:
            if last is not None:
                mutate(last)
            obs = ("mutated",)
        else:
            obs, cfg = outcome(sch, text, ovr, lenient=m is not None)
            if cfg is not None:
                last = cfg
            want = fresh_outcomes[oi]
            acc.cls("step:%s" % obs[0])
            if m is not None and step == len(seq) - 1:
                acc.cls("datatype-name:%s:%s:%s" % (m["place"], m["shape"], obs[0]))
                if new_before and m["part"]:
                    # a suffix / prefix / case variant of a dotted name, after a load that resolved that name
                    acc.extra["dt_part_of_name_after_load_that_resolved_it"] += 1
                if new_before and m["shape"].startswith("stock"):
                    acc.extra["dt_stock_name_after_load_that_resolved_a_new_dotted_name"] += 1
            if obs[0] == "I":
                acc.violation("internal-error", case, obs[1], want[0],
                              tags={"kind": "internal-error", "exc": obs[1]["class"], "op": name})
                return d0
            if obs != want:
                acc.violation("outcome-differs-from-fresh-schema", case, [obs[0], repr(obs[1])[:300]],
                              [want[0], repr(want[1])[:300]],
                              tags={"kind": "history-outcome", "after_import_load": imported_before,
                                    "uses_type_imported_earlier": imported_before and "pa1" in text,
                                    "op": name})
                return d0
        if meta is not None:
            if m is not None and text is not None and obs[0] != "R":
                allowed.update(m["memo"])
                new_before = new_before or (m["new"] and obs[0] == "A")
            if reg_ok and not check_registry(sch, reg0, allowed, acc, case, name):
                reg_ok = False          # reported once per sequence; the differential goes on
        d1 = H.schema_digest(sch)
        if meta is not None:
            d1 = strip_registry(d1)
        if d1 != d0:
            diff = [a[:2] for a, b in zip(d0, d1) if a != b]
            acc.violation("schema-changed-by-operation", case, repr(diff)[:300], "digest unchanged",
                          tags={"kind": "schema-digest", "with_import": name in IMPORT_OPS or m is not None,
                                "what": sorted(set(x[0] for x in diff))})
            d0 = d1
        if name in IMPORT_OPS or m is not None:
            imported_before = True
    return d0


def shard(arg, acc):
    kind, prefix, depth, tier = arg
    P = pkgs.Packages()
    try:
        plist = make_packages(P)
        S = schema_model()
        xml = M.render(S)
        ops = operations(plist)
        mid = {"schema": xml}
        meta = None
        if kind in ("explicit-dt", "self-test-dt"):
            dops, meta = dt_operations(P)
            ops = [o for o in ops if o[0] in DT_CONTEXT_OPS] + dops
            if [o[0] for o in ops] != dt_alphabet_names():
                raise core.HarnessError("datatype-name alphabet %r differs from %r" % ([o[0] for o in ops],
                                                                                      dt_alphabet_names()))
        fresh = {}
        for i, (name, text, ovr) in enumerate(ops):
            if text is not None:
                fresh[i] = outcome(H.load_schema(xml), text, ovr, lenient=meta is not None and name in meta)[0]
        if kind == "self-test-dt":
            # the fresh outcomes against the reference for datatype names: which shapes resolve at all, and to what
            for i, (name, text, ovr) in enumerate(ops):
                m = meta.get(name)
                if m is None:
                    continue
                acc.ev()
                got = fresh[i][0]
                if got == "I" or (m["want"] in "AR" and got != m["want"]) or (m["want"] == "X" and got == "A"):
                    acc.violation("fresh-outcome-differs-from-reference-for-datatype-names",
                                  {"member": mid, "sequence": [name], "texts": [text], "overrides": [[]]},
                                  [got, repr(fresh[i][1])[:300]], m["want"],
                                  tags={"kind": "datatype-name-reference", "shape": m["shape"], "place": m["place"]})
                    continue
                acc.clause("datatype-name-reference:%s" % m["want"])
                if got == "A" and m["place"] == "key":
                    value = {"stock": "('int', 12)", "dotted-known-to-schema": "('int', 12)",
                             "dotted-new-last-component-stock": "('str', 'mine:12')"}.get(
                                 m["shape"].replace("-other-case", ""), "('str', 'shout:12')")
                    if "('dk', %s)" % value not in repr(fresh[i][1]):
                        raise core.HarnessError("operation %s: converted value %s not in %r" % (name, value, fresh[i][1]))
            return acc
        if kind == "explicit-dt":
            # every sequence of <= depth operations of the datatype-name alphabet that starts with `prefix`
            for n in range(len(prefix), depth + 1):
                for tail in itertools.product(range(len(ops)), repeat=n - len(prefix)):
                    seq = tuple(prefix) + tail
                    run_sequence(xml, ops, seq, acc, mid, fresh, meta)
                    if len(seq) >= 2 and ops[seq[-1]][0] in meta and any(ops[i][0] in meta for i in seq[:-1]):
                        acc.nt()
                    acc.sample(lambda: {"sequence": [ops[i][0] for i in seq]})
            acc.traces = acc.transitions
            return acc
        if kind == "self-test":
            # the fresh outcomes themselves: every fault op must be rejected, every valid op accepted
            for i, (name, text, ovr) in enumerate(ops):
                if text is None:
                    continue
                want = "A" if name.startswith(("valid", "overrides-valid", "import-and-use", "import-second-and-use",
                                               "leaf-into", "import-extender-of-own-type", "wildcard-defaults-of-that-type",
                                               "import-both-and-use")) else "R"
                if fresh[i][0] != want:
                    raise core.HarnessError("operation %s: fresh outcome %r, designed to be %s" % (name, fresh[i], want))
            return acc
        if kind == "explicit":
            for n in range(1, depth + 1):
                if n <= len(prefix):
                    continue
                for tail in itertools.product(range(len(ops)), repeat=n - len(prefix)):
                    seq = tuple(prefix) + tail
                    run_sequence(xml, ops, seq, acc, mid, fresh)
                    if len(seq) >= 2 and any(ops[i][0].startswith("fault") or ops[i][1] is None for i in seq[:-1]):
                        acc.nt()
                    acc.sample(lambda: {"sequence": [ops[i][0] for i in seq]})
            if len(prefix) <= depth:
                run_sequence(xml, ops, tuple(prefix), acc, mid, fresh)
        else:
            # BFS to depth 8, state = digest of the schema after the sequence
            seen = {}
            sch0 = H.load_schema(xml)
            frontier = [()]
            norm = lambda d: core.digest(_strip_ids(d))
            seen[norm(H.schema_digest(sch0))] = ()
            for level in range(8):
                nxt = []
                for hist in frontier:
                    for oi in range(len(ops)):
                        seq = hist + (oi,)
                        d = run_sequence(xml, ops, seq, acc, mid, fresh)
                        k = norm(d)
                        if k not in seen:
                            seen[k] = seq
                            nxt.append(seq)
                frontier = nxt
                if not frontier:
                    acc.extra["bfs_closed_at_level"] = max(acc.extra.get("bfs_closed_at_level", 0), level + 1)
                    break
            acc.states += len(seen)
    finally:
        P.close()
    acc.traces = acc.transitions
    return acc


def _strip_ids(d):
    """Digest with object identities replaced by their rank of first appearance, so
    that digests of different schema objects are comparable."""
    table = {}

    def walk(x):
        if isinstance(x, tuple):
            return tuple(walk(y) for y in x)
        if isinstance(x, int) and x > 10 ** 9:
            return "id%d" % table.setdefault(x, len(table))
        return x
    return walk(d)


def run(tier):
    depth = 4 if tier == "quick" else 5
    dt_depth = 3 if tier == "quick" else 4
    nops = 22
    run = core.Run(
        "C13", tier, "model_checking",
        rule="%d operations on one schema object (2 valid loads, 7 invalid loads with the fault at the syntax / "
             "matching / key-conversion / value-conversion / section-datatype / top-level-finish stage, 6 loads around "
             "'%%import' of two different components and of a third one that defines a type name differently, 2 loads "
             "with overrides, mutation of every list/dict of the last result); every sequence of "
             "<= %d operations explicitly, each step compared with the same load on a fresh schema and with the "
             "schema's structural digest; then a breadth-first search to depth 8 with state = digest(schema) "
             "(object identities normalised).  Non-trivial = sequence with a failed load or a mutation followed by "
             "another step.  "
             "Datatype-name axis: %d further operations, each '%%import' of its own component + use of its section "
             "type, one per (shape of the datatype name x place): %d shapes {stock name; stock name in another case; "
             "dotted name the schema itself resolved; dotted name first resolved during a load; the same relative to "
             "the component's prefix; dotted name whose last component is a stock name (another function); each "
             "proper component-wise suffix and prefix of that dotted name used as a name; the suffix in another "
             "case; last component of a dotted name the schema knows; unresolvable dotted name; the dotted name in "
             "another case} x places {key datatype, section-type datatype}, together with %d of the operations above "
             "(%s): every sequence of <= %d of these %d operations on one schema object, each step compared with "
             "the fresh schema, with the reference for which shapes resolve (self-test on the fresh schema), and "
             "the registry's memo with its model (the schema's own names + full dotted names resolved by a load of "
             "the history, each bound to what importlib finds); the rest of the digest as above.  Non-trivial there "
             "= a datatype-name load after at least one other." % (
                 nops, depth, N_SHAPES * len(DT_PLACES), N_SHAPES, len(DT_CONTEXT_OPS), ", ".join(DT_CONTEXT_OPS),
                 dt_depth, N_DT_OPS),
        bounds={"explicit_depth": depth, "bfs_depth": 8, "operations": nops,
                "depth_5_only_below_prefixes_of": "12 of the 22 operations (thorough tier)",
                "datatype_name_axis": {"shapes": N_SHAPES, "places": list(DT_PLACES), "operations": N_DT_OPS,
                                       "explicit_depth": dt_depth, "in_bfs": False,
                                       "depth_4_only_below_prefixes_of": "%d of the %d operations (thorough tier): %s"
                                                                         % (len(DT_CORE), N_DT_OPS, ", ".join(DT_CORE)),
                                       "sequences": sum(N_DT_OPS ** n for n in range(1, 4)) +
                                       (len(DT_CORE) ** 2 * N_DT_OPS ** 2 if dt_depth >= 4 else 0)}},
        assumptions=["completeness of vz.harness.load.schema_digest (guarded by the differential oracle of the explicit "
                     "sequences)", "schema: defaults of every kind, derived type with another key type, abstract slot, "
                     "rejecting section datatype, datatypes loaded by dotted name, defaults whose converted value is a "
                     "mutable list (string-list) in single, multi and wildcard keys"])
    shards = [("self-test", (), 0, tier)]
    # depth 5 (thorough) only below prefixes drawn from the operations that leave something behind or depend on
    # what was left (imports, failed loads, mutation, catch-all vs named slot); other prefixes go to depth 4
    core_ops = (0, 2, 5, 7, 9, 11, 12, 13, 14, 17, 19, 21)
    shards += [("explicit", (i, j), depth if (depth <= 4 or (i in core_ops and j in core_ops)) else 4, tier)
               for i in range(nops) for j in range(nops)]
    shards += [("explicit", (i,), 1, tier) for i in range(nops)]
    shards += [("bfs", (), 8, tier)]
    # wave 5: the datatype-name alphabet, every sequence of <= dt_depth operations
    shards += dt_shards(dt_depth)
    core.pmap(shard, shards, run.acc, shard_budget=3000.0)
    a = run.acc
    run.require(a.classes.get("step:A", 0) > 100 and a.classes.get("step:R", 0) > 100, "few steps")
    run.require(a.states >= 1, "BFS did not run")
    # the datatype-name axis was really exercised: every (shape, place) ended a sequence, the reference classified
    # every one on the fresh schema, and parts of a dotted name were tried after a load that resolved the name
    dtc = [k for k in a.classes if k.startswith("datatype-name:")]
    run.require(len(set(k.rsplit(":", 1)[0] for k in dtc)) == N_SHAPES * len(DT_PLACES),
                "datatype-name axis: not every (shape, place) ended a sequence")
    run.require(sum(v for k, v in a.clauses.items() if k.startswith("datatype-name-reference:")) +
                sum(1 for v in a.violations.values() if v["tags"].get("kind") == "datatype-name-reference")
                >= N_SHAPES * len(DT_PLACES), "datatype-name axis: reference self-test incomplete")
    run.require(a.extra.get("dt_part_of_name_after_load_that_resolved_it", 0) >= 1000,
                "datatype-name axis: too few sequences try a part of a dotted name after a load that resolved it")
    run.require(a.extra.get("dt_stock_name_after_load_that_resolved_a_new_dotted_name", 0) >= 200,
                "datatype-name axis: too few sequences use a stock name after a dotted name was resolved")
    run.require(all(a.classes.get("datatype-name:%s:%s:%s" % (p, sh, w), 0) > 0
                    for p in DT_PLACES for sh, _n, w, _m, _p in dt_shapes("T", p) if w in "AR")
                or bool(a.violations),
                "datatype-name axis: a shape never had its reference outcome at the end of a sequence")
    return run


def replay(body):
    case = body["case"]
    P = pkgs.Packages()
    rc = 0
    try:
        plist = make_packages(P)
        ops = operations(plist)
        dops, meta = dt_operations(P)
        ops = ops + dops
        byname = {o[0]: i for i, o in enumerate(ops)}
        seq = tuple(byname[n] for n in case["sequence"])
        if not any(n in meta for n in case["sequence"]):
            meta = None
        xml = case["member"]["schema"]
        for _ in range(2):
            acc = core.Acc()
            fresh = {i: outcome(H.load_schema(xml), o[1], o[2], lenient=meta is not None and o[0] in meta)[0]
                     for i, o in enumerate(ops) if o[1] is not None}
            run_sequence(xml, ops, seq, acc, case["member"], fresh, meta)
            for i in seq:
                m = (meta or {}).get(ops[i][0])
                if m is not None and (fresh[i][0] == "I" or (m["want"] in "AR" and fresh[i][0] != m["want"])
                                      or (m["want"] == "X" and fresh[i][0] == "A")):
                    print("REPLAY violation: fresh schema:", ops[i][0], fresh[i][0], "reference", m["want"])
                    rc = 1
            print("sequence:", case["sequence"])
            for v in acc.violations.values():
                print("REPLAY violation:", v["kind"], v["observed"], "expected", v["expected"])
                rc = 1
    finally:
        P.close()
    return rc
