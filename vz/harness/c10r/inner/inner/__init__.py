"""C10 (wave 5, axis P): one level of the two package trees vz.harness.c10r (levels a, a.inner = b, a.inner.inner = c)
and vz.harness.c10s (levels o, o.inner = p).  Every level publishes ONE name that exists at no other level
(only_c) and one name that exists at every level (conv), so that a dot-relative datatype / keytype name written in a
schema names a conversion under exactly one effective prefix (only_*) or under every one (conv).  The table
vz.ref.schemaprefix.PUBLISHED is the reference's view of these packages; the check compares the two before it runs.

Both functions are usable as a value datatype, a section datatype and a key type (identity).
"""


def only_c(value):
    return value


def conv(value):
    return value
