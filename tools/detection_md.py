#!/usr/bin/env python3
"""detection_md.py TABLE.jsonl -> markdown for DESIGN.md section 9 (detection record)."""
import json, sys, os, collections
rows = [json.loads(l) for l in open(sys.argv[1])]
byprop = collections.defaultdict(list)
for r in rows:
    name = r["mutant"]
    prop = (name.split("/")[1][:3] if name.startswith("seeded/") else name[:3].upper())
    byprop[prop].append(r)
def title(name):
    if name.startswith("seeded/"):
        f = "/verif/%s/notes.md" % name
        if os.path.exists(f):
            t = open(f).readline().strip().lstrip("# ").strip()
            return t[:110]
    return ""
print("| change | kind | repo suite | checks run -> exit (violation lines) | first violation kinds |")
print("|---|---|---|---|---|")
tot = collections.Counter()
for prop in sorted(byprop):
    for r in sorted(byprop[prop], key=lambda r: (not r["mutant"].startswith("seeded/"), r["mutant"])):
        seeded = r["mutant"].startswith("seeded/")
        caught = any(c["rc"] == 1 for c in r["checks"].values())
        tot[("seeded" if seeded else "mutant", "caught" if caught else ("missed" if r["checks"] else "not-run"))] += 1
        chk = ", ".join("%s -> %d (%d)" % (k, v["rc"], v["violations"]) for k, v in sorted(r["checks"].items())) or "patch did not apply"
        nm = r["mutant"].replace("seeded/", "")
        print("| %s%s | %s | %s | %s | %s |" % (nm, (" - " + title(r["mutant"])) if seeded else "", "independent" if seeded else "own mutant",
                                          r["suite"], chk, ", ".join(r.get("first_kinds") or [])))
print()
print("Totals:", dict(tot))
