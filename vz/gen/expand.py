"""expand(): the composition-free schema model equal (by the statement of C11) to a
schema model written with composition features (extends, prefixes).  Written
from the statement; never looks at ZConfig."""
from dataclasses import replace

from vz.gen import schema as M


def eff_prefix(outer, own):
    if own:
        return outer + own if own.startswith(".") else own
    return outer


def resolve(name, prefix):
    if name and name.startswith("."):
        return prefix + name
    return name


def resolve_item(it, prefix):
    if isinstance(it, (M.Key, M.MultiKey)):
        return replace(it, datatype=resolve(it.datatype, prefix))
    return it


def expand(S):
    p0 = S.prefix or ""
    done = {}
    types = []
    for t in S.types:
        if isinstance(t, M.AType):
            types.append(t)
            continue
        pt = eff_prefix(p0, t.prefix)
        kt = resolve(t.keytype, pt)
        dt = resolve(t.datatype, pt)
        items = tuple(resolve_item(it, pt) for it in t.items)
        if t.extends:
            b = done[t.extends]
            kt = kt or b.keytype            # inherited unless the attribute is present
            dt = dt or b.datatype
            items = b.items + items         # the base's keys and sections written out first
        e = M.SType(t.name, items, extends=None, implements=t.implements, keytype=kt, datatype=dt)
        done[t.name] = e
        types.append(e)
    return M.Schema(types=tuple(types), items=tuple(resolve_item(it, p0) for it in S.items),
                    keytype=resolve(S.keytype, p0), datatype=resolve(S.datatype, p0), handler=S.handler)
