"""C06 - %include behaves as textual inclusion of a self-contained fragment.

Engine E3 over cut sets: for every seed text (accepted and rejected corpus
texts, %define texts) ALL sets of 1..n line ranges that are balanced with respect
to section nesting, pairwise disjoint or nested, are moved into real files
(same directory / sub-directory / parent directory of the includer, referenced
relatively) and ZConfig.loadConfig(outer file) is compared with
ZConfig.loadConfigFile(StringIO(original text)).  Negative space: every
unbalanced range as a fragment must be rejected.
"""
import io
import itertools
import os
import shutil
import tempfile

from vz import core
from vz.gen import corpus as C
from vz.gen import schema as M
from vz.harness import load as H
from vz.props.c15 import DEFINE_SCHEMA, DEFINE_TEXTS, classify

PLACES = ("same", "sub", "parent")


def depth_profile(lines):
    """nesting depth before each line and at the end (layout level)."""
    d = [0]
    for l in lines:
        k = classify(l)
        cur = d[-1]
        if k == "open":
            cur += 1
        elif k == "close":
            cur -= 1
        d.append(cur)
    return d


def balanced(lines, i, j):
    cur = 0
    for l in lines[i:j]:
        k = classify(l)
        if k == "open":
            cur += 1
        elif k == "close":
            cur -= 1
            if cur < 0:
                return False
    return cur == 0


def ranges(lines):
    n = len(lines)
    return [(i, j) for i in range(n) for j in range(i + 1, n + 1)]


def place_dir(includer_dir, place):
    if place == "same":
        return includer_dir, ""
    if place == "sub":
        return os.path.join(includer_dir, "sub dir"), "sub%20dir/"
    return os.path.dirname(includer_dir), "../"


class Scratch:
    def __init__(self):
        self.base = tempfile.mkdtemp(prefix="vz-c06-", dir="/dev/shm" if os.path.isdir("/dev/shm") else None)
        self.maindir = os.path.join(self.base, "p1", "p2", "p3")
        os.makedirs(os.path.join(self.maindir, "sub dir"))
        os.makedirs(os.path.join(self.base, "p1", "p2", "sub dir"))
        os.makedirs(os.path.join(self.base, "p1", "sub dir"))
        self.n = 0

    def write(self, d, name, lines):
        os.makedirs(d, exist_ok=True)
        p = os.path.join(d, name)
        with open(p, "w") as f:
            f.write("\n".join(lines) + ("\n" if lines else ""))
        return p

    def close(self):
        shutil.rmtree(self.base, ignore_errors=True)


def build(scr, lines, cuts, places):
    """Write the files for a cut set; cuts = list of (i, j, parent_index|None)
    with ranges relative to the ORIGINAL line numbering.  Returns main path."""
    scr.n += 1
    # children of each node (None = main), sorted by start
    kids = {}
    for idx, (i, j, par) in enumerate(cuts):
        kids.setdefault(par, []).append(idx)

    def emit(node, lo, hi, d):
        out = []
        pos = lo
        for idx in sorted(kids.get(node, []), key=lambda k: cuts[k][0]):
            i, j, _ = cuts[idx]
            out += lines[pos:i]
            fd, rel = place_dir(d, places[idx])
            name = "f%d_%d.conf" % (scr.n, idx)
            sub = emit(idx, i, j, fd)
            scr.write(fd, name, sub)
            out.append("  %include " + rel + name)
            pos = j
        out += lines[pos:hi]
        return out

    main = emit(None, 0, len(lines), scr.maindir)
    return scr.write(scr.maindir, "main%d.conf" % scr.n, main)


def outcome_file(sch, path):
    import ZConfig
    try:
        cfg, _ = ZConfig.loadConfig(sch, path)
        return ("tree", H.tree(cfg))
    except ZConfig.ConfigurationError as e:
        return ("rejected",)
    except Exception as e:
        return ("internal", core.exc_desc(e))


def outcome_text(sch, text):
    r = H.load(sch, text)
    if r[0] == "ok":
        return ("tree", H.tree(r[1]))
    if r[0] == "rejected":
        return ("rejected",)
    return ("internal", core.exc_desc(r[1]))


def check_seed(scr, sch, lines, acc, mid, tier):
    text = "\n".join(lines) + "\n"
    base = outcome_text(sch, text)
    acc.ev()
    if base[0] == "internal":
        acc.extra["seed_internal_errors(C07's)"] += 1
        return
    acc.cls("seed-" + base[0])
    acc.states += 1
    prof = depth_profile(lines)
    has_define = any(classify(l) == "define" for l in lines)
    bal = [(i, j) for (i, j) in ranges(lines) if balanced(lines, i, j)]
    unbal = [(i, j) for (i, j) in ranges(lines) if not balanced(lines, i, j)]

    def run_case(cuts, places, expect, kind):
        path = build(scr, lines, cuts, places)
        got = outcome_file(sch, path)
        acc.ev()
        acc.transitions += 1
        nontriv = any(prof[i] > 0 for i, j, p in cuts) or any(p is not None for i, j, p in cuts) or has_define
        if nontriv:
            acc.nt()
        case = {"member": mid, "text": text, "cuts": [list(c) for c in cuts], "places": list(places)}
        acc.sample(lambda: dict(case, kind=kind))
        acc.cls("%s:%s" % (kind, got[0]))
        if got[0] == "internal":
            acc.violation("internal-error", case, got[1], expect[0],
                          tags={"kind": "internal-error", "exc": got[1]["class"], "where": got[1]["where"]})
        elif got != expect:
            acc.violation("include-differs-from-inlined-text" if kind != "unbalanced" else
                          "unbalanced-fragment-accepted", case, [got[0], repr(got[1:])[:300]],
                          [expect[0], repr(expect[1:])[:300]],
                          tags={"kind": kind, "places": list(places), "nested": any(p is not None for _, _, p in cuts),
                                "define": has_define, "seed": base[0]})

    for (i, j) in bal:
        for pl in PLACES:
            run_case([(i, j, None)], (pl,), base, "single")
    for (i, j) in unbal:
        run_case([(i, j, None)], ("same",), ("rejected",), "unbalanced")
    pair_places = list(itertools.product(PLACES, repeat=2)) if tier != "quick" else \
        [("same", "sub"), ("sub", "parent"), ("parent", "same"), ("sub", "sub")]
    for a in range(len(bal)):
        for b in range(len(bal)):
            (i, j), (k, l) = bal[a], bal[b]
            if j <= k:                                   # disjoint, a before b
                for pls in pair_places:
                    run_case([(i, j, None), (k, l, None)], pls, base, "pair-disjoint")
            elif i <= k and l <= j and (i, j) != (k, l):  # b nested in a
                for pls in pair_places:
                    run_case([(i, j, None), (k, l, 0)], pls, base, "pair-nested")
    # an outer fragment (in another directory) that itself includes two fragments one after the other:
    # the second inner include must still resolve against the OUTER fragment, not against whatever was
    # parsed last
    shapes = [("sub", "same", "same"), ("parent", "sub", "same"), ("sub", "sub", "parent")]
    if tier != "quick":
        shapes += [("same", "sub", "sub"), ("parent", "parent", "same"), ("sub", "parent", "sub")]
    for (i, j) in bal:
        inner = [(k, l) for (k, l) in bal if i <= k and l <= j and (k, l) != (i, j)]
        for (k, l), (m, n) in itertools.combinations(inner, 2):
            if l <= m:
                for pls in shapes:
                    run_case([(i, j, None), (k, l, 0), (m, n, 0)], pls, base, "outer-with-two-inner")
    if tier != "quick" and len(lines) <= 6:
        for a, b, c in itertools.permutations(range(len(bal)), 3):
            (i, j), (k, l), (m, n) = bal[a], bal[b], bal[c]
            if i <= k and l <= j and (i, j) != (k, l) and k <= m and n <= l and (k, l) != (m, n):
                for pls in (("sub", "parent", "sub"), ("parent", "parent", "same"), ("same", "sub", "parent")):
                    run_case([(i, j, None), (k, l, 0), (m, n, 1)], pls, base, "triple-nested")
            elif j <= k and l <= m:
                run_case([(i, j, None), (k, l, None), (m, n, None)], ("same", "sub", "parent"), base,
                         "triple-disjoint")


def define_seeds():
    A = ["%define a x", "%define a y", "%define B $a", "%define c $a$b", "u $a", "u ${b}", "u $c", "<s>", "</s>"]
    out = [t.rstrip("\n").split("\n") for t in DEFINE_TEXTS]
    for n in (3, 4):
        for combo in itertools.product(A, repeat=n):
            if not any(c.startswith("%define") for c in combo):
                continue
            if n == 4 and not (combo[0].startswith("%define") and combo[3].startswith("u ")
                               and sum(c.startswith("%define") for c in combo) >= 2):
                continue
            d = 0
            ok = True
            for c in combo:
                if c == "<s>":
                    d += 1
                elif c == "</s>":
                    d -= 1
                    if d < 0:
                        ok = False
            if ok and d == 0:
                out.append(list(combo))
    return out


def shard(member, acc):
    kind, tier = member[0], member[-1]
    scr = Scratch()
    try:
        if kind == "corpus":
            _, name, S, root, cdepth, lean = member[:6]
            xml = M.render(S)
            sch = H.load_schema(xml)
            mid = {"name": name, "schema": xml}
            na = nr = 0
            cap = 6 if tier == "quick" else 40
            for events, d in C.nodes(S, root, cdepth, lean):
                if d.verdict == "U" or len(events) < 3:
                    continue
                text = H.render_events(events)
                lines = text.rstrip("\n").split("\n")
                if len(lines) > (7 if tier == "quick" else 9):
                    continue
                if d.verdict == "A":
                    na += 1
                    if na > cap:
                        continue
                else:
                    nr += 1
                    if nr > cap:
                        continue
                check_seed(scr, sch, lines, acc, mid, tier)
        else:
            _, name, xml, seeds = member[:4]
            sch = H.load_schema(xml)
            mid = {"name": name, "schema": xml}
            for lines in seeds:
                check_seed(scr, sch, lines, acc, mid, tier)
    finally:
        scr.close()
    acc.traces = acc.transitions
    return acc


def run(tier):
    mem = [("corpus",) + m + (tier,) for m in C.members(tier)]
    ds = define_seeds()
    step = 40
    for i in range(0, len(ds), step):
        mem.append(("fixed", "define-%d" % i, DEFINE_SCHEMA, ds[i:i + step], tier))
    run = core.Run(
        "C06", tier, "model_checking",
        rule="seeds = accepted and rejected corpus texts (3..%d lines, capped per schema) and %d %%define texts "
             "(all 3-/4-line texts over an 8-line define/use/section alphabet); per seed every balanced line range "
             "as a fragment in 3 placements (same / sub-directory with a space in its name / parent directory), "
             "every unbalanced range (must be rejected), every ordered pair of disjoint or nested balanced ranges x "
             "%s placement pairs%s; real files, ZConfig.loadConfig(path) vs loadConfigFile(StringIO(original)).  "
             "states = seeds, transitions = include layouts loaded.  Non-trivial = a range inside a section, a "
             "nested cut, or a seed with %%define."
             % (7 if tier == "quick" else 9, len(ds), "4" if tier == "quick" else "9",
                "" if tier == "quick" else ", triples for seeds <= 6 lines"),
        bounds={"members": len(mem), "max_cuts": 2 if tier == "quick" else 3},
        assumptions=["include arguments are written as URL-quoted relative references"])
    core.pmap(shard, mem, run.acc, shard_budget=3000.0)
    a = run.acc
    run.require(a.classes.get("single:tree", 0) > 200 and a.classes.get("pair-nested:tree", 0) > 100,
                "few accepted include layouts")
    run.require(a.classes.get("unbalanced:rejected", 0) > 200, "few unbalanced fragments")
    return run


def replay(body):
    case = body["case"]
    rc = 0
    for _ in range(2):
        scr = Scratch()
        try:
            sch = H.load_schema(case["member"]["schema"])
            lines = case["text"].rstrip("\n").split("\n")
            cuts = [tuple(c) for c in case["cuts"]]
            path = build(scr, lines, cuts, case["places"])
            got = outcome_file(sch, path)
            exp = outcome_text(sch, case["text"])
            for dp, dn, fn in os.walk(scr.base):
                for f in fn:
                    print("--- %s\n%s" % (os.path.relpath(os.path.join(dp, f), scr.base), open(os.path.join(dp, f)).read()), end="")
            print("with includes:", got[0], repr(got[1:])[:300])
            print("inlined     :", exp[0], repr(exp[1:])[:300], "(expected %s)" % body["expected"][0])
            if got[0] != body["expected"][0] or (got[0] == "tree" and got != exp):
                rc = 1
        finally:
            scr.close()
    return rc
