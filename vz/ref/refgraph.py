"""Reference GRAPHS for C18 (wave 3): more than one reference site in one load.

Parts (b) / (b2) of the check load a chain top -> mid -> leaf whose hops all have
one kind and whose three files have three different names, so the text of every
reference in a load is unique, and so is every file name.  Here the load contains
TWO reference sites (in two different resources) whose reference TEXT is the same
string, and files that share one file NAME in different directories; the kinds of
the hops are mixed freely.  "Resolves relative to the resource that contains it"
then means: the same text in two resources of different directories names two
different files, and both have to be read.

A case is a small directory-placed graph:

  nodes   id -> (depth of its directory below the tree root, file extension)
  edges   (from id, kind, hop, to id) in document order; kind in include / src /
          extends; hop in same / sub / parent (the directory of the target relative
          to the directory of the referring file)

Shapes
  fork     top -> mid (hop h1), top -> lt (hop h2), mid -> lm (hop h2): the references
           top->lt and mid->lm are the SAME text and lt, lm are different files (h1 is
           sub or parent).  naming 'role': files n.top, n.mid, n.leaf, n.leaf;
           naming 'shared': mid is called n.leaf too (three equally named files in
           three directories; needs h2 != same and h1 != h2).  order 0: top refers to
           its leaf first, order 1: to mid first (only where the document can express
           an order: both hops of top of one kind).
  diamond  the fork with h1 = same: lt and lm are ONE file, referred to twice with
           the same text from two resources of one directory.  '%include' only
           (textual inclusion: the file is read twice); for schemas a twice-read
           file redefines its types, which is a rule of the schema language and not
           of this property.
  chain    top -> mid -> leaf, all three files called n.x, both hops the same
           direction (sub, sub / parent, parent): the two references are the same
           text again, and every file of the load has the name of the file that
           refers to it.

Kinds: all '%include' (configuration), or every assignment of src / extends to the
edges (schema).

Reference model (from docs/writing-schema.rst and the description of %include):
  %include is textual inclusion at the place of the directive -> the values of the
  multikey 'k' are the node tags in pre-order;
  a schema inherits keys, sections and section types of a base schema it 'extends';
  <import src> makes the section types of the imported schema available, i.e. for a
  node N  types(N) = {own type} U types(every target),  keys(N) = {own key} U
  keys(every target reached by 'extends').

Nothing here imports ZConfig, urllib or os.path.
"""
import itertools

HOPS = {"same": 0, "sub": 1, "parent": -1}
MAXDEPTH = 3
SCHEMA_KINDS = ("src", "extends")


class Case:
    __slots__ = ("shape", "t", "h1", "h2", "naming", "kinds", "order", "nodes", "edges")

    def __init__(self, shape, t, h1, h2, naming, kinds, order):
        self.shape, self.t, self.h1, self.h2 = shape, t, h1, h2
        self.naming, self.kinds, self.order = naming, tuple(kinds), order
        self.nodes, self.edges = _build(shape, t, h1, h2, naming, self.kinds, order)

    def key(self):
        return {"shape": self.shape, "t": self.t, "h1": self.h1, "h2": self.h2, "naming": self.naming,
                "kinds": list(self.kinds), "order": self.order}

    @property
    def config(self):
        return self.kinds[0] == "include"

    @property
    def profile(self):
        return "/".join(self.kinds)

    def exts(self):
        return sorted({ext for _d, ext in self.nodes.values()})

    def out_edges(self, nid):
        return [e for e in self.edges if e[0] == nid]

    def same_text_sites(self):
        """Pairs of edges in different resources whose reference text is the same
        (same hop, same target file name) and whose targets are different files."""
        out = []
        for a, b in itertools.combinations(self.edges, 2):
            if a[0] != b[0] and a[2] == b[2] and self.nodes[a[3]][1] == self.nodes[b[3]][1] \
                    and a[3] != b[3]:
                out.append((a, b))
        return out

    def mixed_kinds(self):
        return len(set(self.kinds)) > 1


def from_key(k):
    return Case(k["shape"], k["t"], k["h1"], k["h2"], k["naming"], k["kinds"], k["order"])


def _build(shape, t, h1, h2, naming, kinds, order):
    if shape in ("fork", "diamond"):
        k1, k2, k3 = kinds          # top->mid, top->lt, mid->lm
        d1 = t + HOPS[h1]
        mid_ext = "leaf" if naming == "shared" else "mid"
        nodes = {"top": (t, "top"), "mid": (d1, mid_ext), "lt": (t + HOPS[h2], "leaf")}
        if shape == "diamond":
            second = "lt"
        else:
            nodes["lm"] = (d1 + HOPS[h2], "leaf")
            second = "lm"
        e_leaf = ("top", k2, h2, "lt")
        e_mid = ("top", k1, h1, "mid")
        edges = [e_leaf, e_mid] if order == 0 else [e_mid, e_leaf]
        edges.append(("mid", k3, h2, second))
        return nodes, edges
    if shape == "chain":
        k1, k2 = kinds
        nodes = {"top": (t, "x"), "mid": (t + HOPS[h1], "x"), "leaf": (t + HOPS[h1] + HOPS[h2], "x")}
        return nodes, [("top", k1, h1, "mid"), ("mid", k2, h2, "leaf")]
    raise ValueError("unknown shape %r" % (shape,))


def _valid(nodes):
    slots = list(nodes.values())
    return all(0 <= d <= MAXDEPTH for d, _e in slots) and len(set(slots)) == len(slots)


def kind_profiles(n):
    return [("include",) * n] + list(itertools.product(SCHEMA_KINDS, repeat=n))


def cases():
    """Every case, in a fixed order."""
    out = []
    for t in range(MAXDEPTH + 1):
        for h1 in ("sub", "parent"):
            for h2 in HOPS:
                for naming in ("role", "shared"):
                    if naming == "shared" and (h2 == "same" or h1 == h2):
                        continue
                    for kinds in kind_profiles(3):
                        for order in (0, 1):
                            if order == 1 and kinds[0] != kinds[1]:
                                continue        # 'extends' is an attribute: no second order
                            c = Case("fork", t, h1, h2, naming, kinds, order)
                            if _valid(c.nodes):
                                out.append(c)
        for h2 in HOPS:
            for order in (0, 1):
                c = Case("diamond", t, "same", h2, "role", ("include",) * 3, order)
                if _valid(c.nodes):
                    out.append(c)
        for h in ("sub", "parent"):
            for kinds in kind_profiles(2):
                c = Case("chain", t, h, h, "shared", kinds, 0)
                if _valid(c.nodes):
                    out.append(c)
    return out


# ---------------------------------------------------------------------------
# reference model

def preorder(case, nid="top"):
    out = [nid]
    for _s, _k, _h, dst in case.out_edges(nid):
        out.extend(preorder(case, dst))
    return out


def types_of(case, nid="top"):
    out = {nid}
    for _s, _k, _h, dst in case.out_edges(nid):
        out |= types_of(case, dst)
    return out


def keys_of(case, nid="top"):
    out = {nid}
    for _s, kind, _h, dst in case.out_edges(nid):
        if kind == "extends":
            out |= keys_of(case, dst)
    return out


def expected(case):
    """include: the list of values of the multikey 'k'.  schema: {type name: {'k': tag}}
    plus {'': {top-level key name: tag}} (the shape of c18.defaults_projection)."""
    if case.config:
        return preorder(case)
    out = {"t" + n: {"k": n} for n in types_of(case)}
    out[""] = {"k" + n: n for n in keys_of(case)}
    return out


# ---------------------------------------------------------------------------
# documents

def decoy_tag(ext, depth):
    return "DECOY-%s-%d" % (ext, depth)


def document(case, nid, reftext):
    """Text of the file of node `nid`; reftext(edge) -> the reference as written
    (URL spelling; XML escaping is done here)."""
    edges = case.out_edges(nid)
    if case.config:
        return "k %s\n" % nid + "".join("%%include %s\n" % reftext(e) for e in edges)
    ext = [reftext(e).replace("&", "&amp;") for e in edges if e[1] == "extends"]
    imp = [reftext(e).replace("&", "&amp;") for e in edges if e[1] == "src"]
    return ("<schema%s>\n%s"
            '<sectiontype name="t%s"><key name="k" default="%s"/></sectiontype>\n'
            '<key name="k%s" default="%s"/>\n</schema>\n'
            % (' extends="%s"' % " ".join(ext) if ext else "",
               "".join('<import src="%s"/>\n' % r for r in imp), nid, nid, nid, nid))


def decoy_document(case, ext, depth):
    tag = decoy_tag(ext, depth)
    if case.config:
        return "k %s\n" % tag
    n = "decoy-%s-%d" % (ext, depth)
    return ('<schema>\n<sectiontype name="t%s"><key name="k" default="%s"/></sectiontype>\n'
            '<key name="k%s" default="%s"/>\n</schema>\n' % (n, tag, n, tag))
