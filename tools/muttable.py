#!/usr/bin/env python3
"""muttable.py OUT.jsonl [PATTERN] - run every mutant /verif/mutants/cNN-*.diff (and /verif/seeded/*/patch.diff)
against the repository test-suite and against its property's quick check; append one JSON line per mutant."""
import concurrent.futures, glob, json, os, re, subprocess, sys
out = sys.argv[1]
pat = sys.argv[2] if len(sys.argv) > 2 else ""
done = set()
if os.path.exists(out):
    for l in open(out):
        done.add(json.loads(l)["mutant"])
jobs = []
for f in sorted(glob.glob("/verif/mutants/c*.diff")):
    name = os.path.basename(f)[:-5]
    prop = name.split("-")[0].upper()
    if pat in name and name not in done:
        jobs.append((name, f, [prop]))
for d in sorted(glob.glob("/verif/seeded/*/")):
    name = "seeded/" + os.path.basename(d.rstrip("/"))
    meta = json.load(open(d + "meta.json"))
    if pat in name and name not in done:
        jobs.append((name, d + "patch.diff", meta.get("checks") or [meta["property"]]))

def run(job):
    name, f, props = job
    r = subprocess.run(["python3", "/verif/tools/runmut.py", "--suite", f] + props, capture_output=True, text=True,
                       stdin=subprocess.DEVNULL)
    o = r.stdout
    suite = "passes" if "SUITE-PASSES" in o else ("fails" if "SUITE-FAILS" in o else "?")
    checks = {}
    for m in re.finditer(r"CHECK (C\d\d) on \S+: rc=(\d+) violations=(\d+) \((\d+)s\)", o):
        checks[m.group(1)] = {"rc": int(m.group(2)), "violations": int(m.group(3)), "secs": int(m.group(4))}
    kinds = sorted(set(re.findall(r"kind=([\w-]+)", o)))
    return {"mutant": name, "suite": suite, "checks": checks, "first_kinds": kinds[:3]}

with concurrent.futures.ThreadPoolExecutor(int(os.environ.get("MUT_PAR", "2"))) as ex:
    for res in ex.map(run, jobs):
        with open(out, "a") as fh:
            fh.write(json.dumps(res) + "\n")
        print(res["mutant"], res["suite"], {k: v["rc"] for k, v in res["checks"].items()}, flush=True)
