"""Spelling spaces for the C02 sheets: how a section name, a value or a declared key name may be WRITTEN.

Three enumerated spaces, each a complete small alphabet (or a complete sweep) - nothing here imports ZConfig:

  names    section names as written in a header.  (a) every code point that any case mapping of the language moves
           (lower / upper / casefold / title / swapcase), at one position of every context of CONTEXTS; thorough:
           every code point that can stand in a name at all.  (b) every string up to a length bound over NAME_ALPHA =
           one representative of every case-behaviour class (class_signature) + the ASCII name punctuation + a
           combining mark + an uncased letter.
  values   per datatype every string up to a length bound over one representative of every character class the
           datatype's documented syntax distinguishes (upper- AND lower-case letters wherever letters are allowed),
           kept when the independent reference conversion vz.ref.dtypes fixes its value and the line grammar can carry
           it as a value (no outer white space); boolean additionally every upper/lower spelling of the six words.
  keynames declared key names up to a length bound over {lower, upper, digit, '-', '_'} that the container's key type
           admits and whose derived attribute is an identifier.
"""
import itertools
import sys
import unicodedata

from vz.ref import dtypes as D

# ---------------------------------------------------------------------------
# section names

CONTEXTS = (("", ""), ("A", ""), ("", "a"), ("A", "B"), ("a", ""))


def name_char(c):
    """May stand inside a section name: the line grammar takes any run of non-blank characters other than parentheses."""
    o = ord(c)
    return not c.isspace() and c not in "()" and not 0xD800 <= o <= 0xDFFF


def writable_name(n):
    """A name a header can carry: '<t n/>' would read a final '/' as the empty-section mark; '*' / '+' are refused."""
    return bool(n) and all(name_char(c) for c in n) and not n.endswith("/") and n not in ("*", "+")


def case_moved(c):
    return {c.lower(), c.upper(), c.casefold(), c.title(), c.swapcase()} != {c}


def class_signature(c):
    """How the case mappings and normalisation forms of the language relate on c (no code point lists by hand)."""
    lo, up, cf, ti = c.lower(), c.upper(), c.casefold(), c.title()
    nfkc = unicodedata.normalize("NFKC", c)
    return (lo == c, up == c, cf == lo, cf == c, ti == up, ti == c, len(lo), len(up), len(cf),
            lo.upper() == up, up.lower() == lo, ("A" + c).lower() == "a" + lo, nfkc == c,
            unicodedata.normalize("NFC", c) == c, unicodedata.normalize("NFKC", lo) == lo,
            ord(c) < 128, ord(c) < 256, ord(c) < 0x10000, c.isalpha(), lo.casefold() == cf)


def code_points(moved_only):
    out = []
    for i in range(sys.maxunicode + 1):
        c = chr(i)
        if name_char(c) and (not moved_only or case_moved(c)):
            out.append(c)
    return out


NAME_EXTRA = "1-._̇中"        # digit, the ASCII name punctuation, COMBINING DOT ABOVE, an uncased letter


def name_alphabet(moved=None):
    reps = {}
    for c in (moved if moved is not None else code_points(True)):
        reps.setdefault(class_signature(c), c)
    out = list(reps.values())
    for c in NAME_EXTRA:
        if c not in out:
            out.append(c)
    return out


def strings(alpha, maxlen, minlen=1):
    for n in range(minlen, maxlen + 1):
        for t in itertools.product(alpha, repeat=n):
            yield "".join(t)


def sweep_names(cps, ctx):
    pre, suf = ctx
    return [pre + c + suf for c in cps if writable_name(pre + c + suf)]


def pack(names, size, key=lambda n: n.lower(), keys=None):
    """Greedy first-fit packing into sheets of <= size entries whose `key`s (or all of whose `keys(n)`) are pairwise
    distinct (a container refuses a re-used section name / a schema refuses a re-used key or attribute)."""
    sheets, used = [], []
    keys = keys or (lambda n: (key(n),))
    start = 0
    for n in names:
        ks = keys(n)
        for j in range(start, len(sheets)):
            if len(sheets[j]) < size and not any(k in used[j] for k in ks):
                sheets[j].append(n)
                used[j].update(ks)
                break
        else:
            sheets.append([n])
            used.append(set(ks))
        while start < len(sheets) and len(sheets[start]) >= size:
            start += 1
    return sheets


# ---------------------------------------------------------------------------
# values

# datatype -> (alphabet, quick max length, thorough max length)
VALUE_SPACES = {
    "string": ("aB -", 4, 6),
    "null": ("aB \xe9", 4, 6),
    "integer": ("0179-+", 4, 6),
    "boolean": ("onOfFyYeEsS", 3, 4),
    "float": ("15.eE-+", 4, 6),
    "port-number": ("0356", 5, 6),
    "byte-size": ("12kKmMgGbB", 4, 5),
    "time-interval": ("12sSmMhHdD", 3, 5),
    "identifier": ("aB_1-", 4, 6),
    "basic-key": ("aB1-._", 4, 6),
    "string-list": ("aB \t", 4, 6),
    "inet-address": ("[]:aA1.", 5, 6),
}
THOROUGH_EXTRA_ALPHA = {"inet-address": "-F6", "byte-size": "0", "time-interval": "0", "float": "0"}


def _case_variants(w):
    out = [""]
    for c in w:
        out = [o + x for o in out for x in (c.lower(), c.upper())]
    return out


def value_tokens(dt, tier):
    """-> (tokens whose converted value the reference fixes, counters)"""
    alpha, ql, tl = VALUE_SPACES[dt]
    n = ql if tier == "quick" else tl
    cand = list(strings(alpha, n))
    if tier != "quick" and dt in THOROUGH_EXTRA_ALPHA:
        cand += list(strings(alpha + THOROUGH_EXTRA_ALPHA[dt], ql))
    if dt == "boolean":
        for w in D.BOOL_TRUE + D.BOOL_FALSE:
            cand += _case_variants(w)
    ref = D.REFERENCE[dt]
    seen, out = set(), []
    cnt = {"ok": 0, "reject": 0, "unspec": 0, "unwritable": 0}
    for s in cand:
        if s in seen:
            continue
        seen.add(s)
        if s != s.strip() or not s:
            cnt["unwritable"] += 1
            continue
        r = ref(s)
        cnt[r[0]] += 1
        if r[0] == D.OK:
            out.append(s)
    return out, cnt


def reference_value(dt, s):
    """('ok', v) | ('reject', ...) | ('unspec',) from the independent reference conversions."""
    return D.REFERENCE[dt](s)


# ---------------------------------------------------------------------------
# declared key names

KEYNAME_ALPHA = "aB1-_"


def key_names(maxlen):
    return list(strings(KEYNAME_ALPHA, maxlen))
