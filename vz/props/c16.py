"""C16 - the composite handler delivers every handled value exactly once, all or nothing.

Engine E2 (the C01 search, merge key extended by the shared handler list) over
schemas with `handler=` on every subset of {schema, each item of the container
under test, wrapper slots, a leaf key}.  On every accepted node the returned
handler object is exercised with complete / incomplete / None-holding /
case-duplicate / upper-cased maps and compared with the entry list the reference
model predicts (own items in schema order after all nested sections, nested
sections in closing order, schema handler last).
"""
import itertools

from vz import core
from vz.engine import bfs
from vz.gen import schema as M
from vz.harness import load as H
from vz.harness.dt import Wrapped
from vz.ref import match as R
from dataclasses import replace


def family(tier):
    fam = []
    sel1 = M.selections(1)
    sel2 = M.selections(2)
    for placement in (0, 1, 2):
        for lab, items in sel1:
            sites = ["schema"] + ["item%d" % i for i in range(len(items))] + ["lk"]
            if placement >= 1:
                sites.append("cuts")
            if placement >= 2:
                sites.append("mids")
            if tier == "quick" and placement == 2:
                subsets = [tuple(sites)]
            else:
                subsets = [c for k in range(1, len(sites) + 1) for c in itertools.combinations(sites, k)]
            for sub in subsets:
                fam.append((lab, items, placement, sub, 3 if tier == "quick" else 4))
    for placement in ((1,) if tier == "quick" else (0, 1, 2)):
        for lab, items in sel2:
            sites = ["schema", "item0", "item1", "lk"] + (["cuts"] if placement >= 1 else []) + \
                    (["mids"] if placement >= 2 else [])
            subsets = [tuple(sites)]
            if tier != "quick":
                subsets += [("item0", "item1"), ("item1", "lk", "schema")]
                subsets += [tuple(x for x in sites if x != s) for s in sites]
            for sub in subsets:
                fam.append((lab, items, placement, sub, 3))
    return fam


def hname(site):
    # mixed case in the schema text: handler names are normalised as basic-keys
    return "H_%s" % site


def build(member):
    lab, items, placement, sub, depth = member
    items = tuple(replace(it, handler=hname("item%d" % i)) if ("item%d" % i) in sub else it
                  for i, it in enumerate(items))
    env = M.type_env(lk_handler=hname("lk") if "lk" in sub else None, l1_datatype=M.SECT_DT_WRAP)
    return M.place(items, placement, env, cut_datatype=M.SECT_DT_WRAP, schema_datatype=M.SECT_DT_WRAP,
                   schema_handler=hname("schema") if "schema" in sub else None,
                   cuts_handler=hname("cuts") if "cuts" in sub else None,
                   mids_handler=hname("mids") if "mids" in sub else None)


def object_ids(v, out):
    """ids of every attribute value / section object reachable in a result."""
    out.add(id(v))
    if isinstance(v, Wrapped):
        object_ids(v.inner, out)
    elif hasattr(v, "getSectionAttributes"):
        for a in v.getSectionAttributes():
            object_ids(getattr(v, a), out)
    elif isinstance(v, list):
        for x in v:
            object_ids(x, out)
    elif isinstance(v, dict):
        for x in v.values():
            object_ids(x, out)


class Recorder:
    def __init__(self):
        self.calls = []

    def make(self, name):
        def cb(value, name=name):
            self.calls.append((name, value))
        return cb


def call(handler, mapping):
    import ZConfig
    try:
        handler(mapping)
        return ("ok",)
    except ZConfig.ConfigurationError as e:
        return ("config-error", str(e)[:120])
    except Exception as e:
        return ("internal", core.exc_desc(e))


def check_case(S, sch, hist, text, acc, mid):
    obs = H.load(sch, text)
    ref = R.decide(S, hist)
    acc.ev()
    case = {"member": mid, "events": [list(e) for e in hist], "text": text}
    if obs[0] == "internal":
        d = core.exc_desc(obs[1])
        acc.violation("internal-error", case, d, ref.verdict,
                      tags={"kind": "internal-error", "exc": d["class"], "where": d["where"]})
        return False
    o = "A" if obs[0] == "ok" else "R"
    if ref.verdict == "U":
        acc.cls("unspecified")
        return False
    if o != ref.verdict:
        acc.cls("verdict-disagreement(C01's)")
        acc.extra["verdict_disagreements"] += 1
        return False
    if o == "R":
        acc.cls("rejected")
        return True
    cfg, handler = obs[1], obs[2]
    exp = ref.entries
    names = [n for n, _ in exp]
    acc.cls("accepted-%d-entries" % min(len(exp), 6))
    levels = set()
    if len(exp) >= 2:
        acc.nt()
    acc.sample(lambda: dict(case, entries=names))

    def bad(kind, observed, expected, **tags):
        acc.violation(kind, case, observed, expected, tags=dict(tags, kind=kind))
        return False

    try:
        n = len(handler)
    except Exception as e:
        return bad("len-raises", core.exc_desc(e), len(exp))
    if n != len(exp):
        return bad("wrong-length", n, len(exp))
    uniq = sorted(set(names))
    ids = set()
    object_ids(cfg, ids)
    # 1. complete map
    rec = Recorder()
    r = call(handler, {nm: rec.make(nm) for nm in uniq})
    if r != ("ok",):
        return bad("complete-map-refused", r, "ok")
    got = [c[0] for c in rec.calls]
    if got != names:
        return bad("wrong-call-sequence", got, names)
    for (nm, val), (_, want) in zip(rec.calls, exp):
        if H.tree(val) != want:
            return bad("wrong-value-delivered", [nm, repr(H.tree(val))], [nm, repr(want)])
        if isinstance(val, (list, dict, Wrapped)) or hasattr(val, "getSectionAttributes"):
            if id(val) not in ids:
                return bad("delivered-object-not-in-tree", [nm, repr(H.tree(val))], "the tree's own object")
    # 2. keys written in upper case are matched after basic-key normalisation
    rec = Recorder()
    r = call(handler, {nm.upper(): rec.make(nm) for nm in uniq})
    if r != ("ok",) or [c[0] for c in rec.calls] != names:
        return bad("upper-case-map-mishandled", [r, [c[0] for c in rec.calls]], names)
    for miss in uniq:
        # 3. one name unmapped: configuration error, nothing called
        rec = Recorder()
        r = call(handler, {nm: rec.make(nm) for nm in uniq if nm != miss})
        if r[0] != "config-error" or rec.calls:
            return bad("incomplete-map-not-all-or-nothing", [r, [c[0] for c in rec.calls]],
                       ["config-error", []])
        # 4. one name mapped to None: skipped, the others called once, in order
        rec = Recorder()
        r = call(handler, {nm: (None if nm == miss else rec.make(nm)) for nm in uniq})
        want = [x for x in names if x != miss]
        if r != ("ok",) or [c[0] for c in rec.calls] != want:
            return bad("none-entry-mishandled", [r, [c[0] for c in rec.calls]], want)
        # 5. a case-variant duplicate of one name: configuration error, nothing called
        rec = Recorder()
        m = {nm: rec.make(nm) for nm in uniq}
        m[miss.upper()] = rec.make(miss)
        r = call(handler, m)
        if r[0] != "config-error" or rec.calls:
            return bad("duplicate-name-not-all-or-nothing", [r, [c[0] for c in rec.calls]],
                       ["config-error", []])
    # 6. names no entry of this load uses: a single surplus name is harmless, two surplus names that
    #    normalise to the same key are refused, nothing called
    rec = Recorder()
    m = {nm: rec.make(nm) for nm in uniq}
    m["zz-unused"] = rec.make("zz-unused")
    r = call(handler, m)
    if r != ("ok",) or [c[0] for c in rec.calls] != names:
        return bad("surplus-name-mishandled", [r, [c[0] for c in rec.calls]], names)
    rec = Recorder()
    m = {nm: rec.make(nm) for nm in uniq}
    m["zz-unused"] = rec.make("zz-unused")
    m["ZZ-Unused"] = rec.make("zz-unused")
    r = call(handler, m)
    if r[0] != "config-error" or rec.calls:
        return bad("duplicate-unused-name-not-all-or-nothing", [r, [c[0] for c in rec.calls]], ["config-error", []])
    if not uniq:
        r = call(handler, {})
        if r != ("ok",):
            return bad("empty-map-refused", r, "ok")
    acc.extra["handler_calls_checked"] += 3 * len(uniq) + 2
    return True


def shard(member, acc):
    S, root = build(member)
    xml = M.render(S)
    sch = H.load_schema(xml)
    mid = {"label": list(member[0]), "placement": member[2], "handlers_on": list(member[3]),
           "depth": member[4], "schema": xml}
    bfs.explore(S, sch, root, member[4], acc, lambda h, t: check_case(S, sch, h, t, acc, mid),
                with_handlers=True)
    acc.extra["schemas"] += 1
    return acc


def run(tier):
    fam = family(tier)
    run = core.Run(
        "C16", tier, "model_checking",
        rule="the C01 breadth-first search (merge key = open-matcher state + the shared handler list) over "
             "schemas with handler= on every subset of {schema, items of the container under test, wrapper "
             "slots, leaf key} (all subsets for <= 1 item, selected subsets for 2 items); every accepted node: "
             "len(handler), call sequence and delivered values for the complete map, the upper-cased map, each "
             "single name missing / mapped to None / duplicated in another letter case, against the entry list of "
             "the reference model.  Non-trivial = accepted sequence with >= 2 handler entries.",
        bounds={"schemas": len(fam), "depth": sorted(set(m[4] for m in fam))},
        assumptions=["reference entry order from vz/ref/match.py (finish order of containers)",
                     "map keys that are not valid basic-keys are not generated (statement silent)"])
    core.pmap(shard, fam, run.acc, shard_budget=1800.0)
    a = run.acc
    run.require(sum(v for k, v in a.classes.items() if k.startswith("accepted-") and k != "accepted-0-entries"
                    and k != "accepted-1-entries") > 500, "too few accepted nodes with >= 2 entries")
    run.require(a.extra.get("handler_calls_checked", 0) > 1000, "few handler calls")
    return run


def replay(body):
    case = body["case"]
    m = case["member"]
    member = (tuple(m["label"]), M.items_from_labels(m["label"]), m["placement"], tuple(m["handlers_on"]), m["depth"])
    S, root = build(member)
    assert M.render(S) == m["schema"], "schema of the replay file cannot be rebuilt"
    hist = tuple(tuple(e) for e in case["events"])
    rc = 0
    for _ in range(2):
        acc = core.Acc()
        sch = H.load_schema(m["schema"])
        check_case(S, sch, hist, case["text"], acc, m)
        print("text:\n" + case["text"])
        print("reference entries:", [n for n, _ in R.decide(S, hist).entries])
        for v in acc.violations.values():
            print("REPLAY violation:", v["kind"], "observed=", v["observed"], "expected=", v["expected"])
            rc = 1
    return rc
