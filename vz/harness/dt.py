"""Importable datatype functions used by generated schemas."""


class Wrapped:
    __slots__ = ("inner",)

    def __init__(self, inner):
        self.inner = inner


def wrap(section):
    return Wrapped(section)


def reject_lk_x(section):
    """Section datatype that refuses (ValueError) a section whose 'lk' is 'x'."""
    if getattr(section, "lk", None) == "x":
        raise ValueError("lk must not be x")
    return section
