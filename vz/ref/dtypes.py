"""Reference conversions for every stock ZConfig datatype (property C09).

Written from docs/standard-datatypes.rst and the statement of C09, as hand-written
index-walking scanners: no regular expressions, nothing imported from ZConfig.

Every reference maps a string to one of

    ("ok", value)            the documented contract fixes the result
    ("reject",)              the documented contract refuses it: ValueError expected
    ("reject", "TypeError")  timedelta, unknown unit letter after a valid number
    ("reject", "either")     timedelta, unknown unit letter after an invalid number
    ("unspec",)              the property is silent: only totality (+ post-conditions
                             on a returned value) is checked

Unspecified regions (each is a deliberate reading of where the statement is silent):

  * anything Python's int()/float() take beyond the plain ASCII literal
    (surrounding white space, '_' between digits, non-ASCII decimal digits,
    inf/nan, values overflowing to infinity)
  * identifier family: non-ASCII strings that are identifiers under Python 3's
    Unicode reading (docs: "any valid Python identifier"; code: ASCII only)
  * byte-size / time-interval: a suffix that only matches through non-ASCII case
    folding (KELVIN SIGN + 'b')
  * inet-address family: white space anywhere, the empty string, brackets outside
    the exact '[host]:port' form, an empty port after ':', '[]:port', a number out
    of the port range standing alone, hosts whose lower-casing involves non-ASCII
  * ipaddr-or-hostname: single-character host names; leading zeros in the dotted
    quad embedded in an IPv6 address
  * timedelta: empty input, repeated units, upper-case unit letters, extended float
    syntax, NaN
  * existing-*: '~user' expansion; existing-file given a directory
  * string: non-ASCII input (docs talk about a 7-bit check that no longer exists)
  * locale: everything
"""
import datetime
import os
import socket
import struct
from fractions import Fraction

OK, REJECT, UNSPEC = "ok", "reject", "unspec"
_REJ = (REJECT,)
_UNS = (UNSPEC,)

HEXLETTERS = "abcdefABCDEF"


# --------------------------------------------------------------------------
# character helpers (ASCII only on purpose)

def is_digit(c):
    return "0" <= c <= "9"


def is_lower(c):
    return "a" <= c <= "z"


def is_upper(c):
    return "A" <= c <= "Z"


def is_letter(c):
    return is_lower(c) or is_upper(c)


def is_hex(c):
    return is_digit(c) or ("a" <= c <= "f") or ("A" <= c <= "F")


def ascii_lower(s):
    out = []
    for c in s:
        if "A" <= c <= "Z":
            out.append(chr(ord(c) + 32))
        else:
            out.append(c)
    return "".join(out)


def is_ascii(s):
    for c in s:
        if ord(c) > 127:
            return False
    return True


def has_space(s):
    # (str.split() splits exactly at str.isspace() characters)
    return s != "" and s.split() != [s]


# --------------------------------------------------------------------------
# numbers

def plain_int(s):
    """[+-]?[0-9]+  ->  int, else None.  Value computed by hand."""
    i, n = 0, len(s)
    neg = False
    if i < n and s[i] in "+-":
        neg = s[i] == "-"
        i += 1
    if i >= n:
        return None
    v = 0
    while i < n:
        c = s[i]
        if not is_digit(c):
            return None
        v = v * 10 + (ord(c) - 48)
        i += 1
    return -v if neg else v


def _strip_space(s):
    return s.strip()           # strips exactly the str.isspace() characters


def _ext_digits(s, i):
    """D(_?D)* with D any Unicode decimal digit, from index i; returns end or -1."""
    n = len(s)
    if i >= n or not s[i].isdecimal():
        return -1
    i += 1
    while i < n:
        if s[i].isdecimal():
            i += 1
        elif s[i] == "_" and i + 1 < n and s[i + 1].isdecimal():
            i += 2
        else:
            break
    return i


def ext_int(s):
    """True if s is in the extended grammar of int(str) in base 10."""
    t = _strip_space(s)
    i = 0
    if i < len(t) and t[i] in "+-":
        i += 1
    e = _ext_digits(t, i)
    return e == len(t) and e > 0


def ref_integer(s):
    v = plain_int(s)
    if v is not None:
        return (OK, v)
    if ext_int(s):
        return _UNS
    return _REJ


def ref_port(s):
    v = plain_int(s)
    if v is not None:
        return (OK, v) if 0 <= v <= 65535 else _REJ
    if ext_int(s):
        return _UNS
    return _REJ


def plain_float(s):
    """[+-]?(D+(.D*)?|.D+)([eE][+-]?D+)? over ASCII digits -> Fraction, else None."""
    i, n = 0, len(s)
    neg = False
    if i < n and s[i] in "+-":
        neg = s[i] == "-"
        i += 1
    mant, scale, nd = 0, 0, 0
    while i < n and is_digit(s[i]):
        mant = mant * 10 + (ord(s[i]) - 48)
        nd += 1
        i += 1
    if i < n and s[i] == ".":
        i += 1
        while i < n and is_digit(s[i]):
            mant = mant * 10 + (ord(s[i]) - 48)
            scale += 1
            nd += 1
            i += 1
    if nd == 0:
        return None
    exp = 0
    if i < n and s[i] in "eE":
        i += 1
        eneg = False
        if i < n and s[i] in "+-":
            eneg = s[i] == "-"
            i += 1
        if i >= n or not is_digit(s[i]):
            return None
        while i < n and is_digit(s[i]):
            exp = exp * 10 + (ord(s[i]) - 48)
            i += 1
        if eneg:
            exp = -exp
    if i != n:
        return None
    return (neg, mant, exp - scale)


def _to_float(parts):
    """Correctly rounded double of (-1)^neg * mant * 10^e, or None if it overflows."""
    neg, mant, e = parts
    if mant == 0:
        return -0.0 if neg else 0.0
    if e > 400:
        return None
    if e < -400 - len(str(mant)):
        return -0.0 if neg else 0.0
    fr = Fraction(mant) * (Fraction(10) ** e)
    try:
        v = float(fr)
    except OverflowError:
        return None
    return -v if neg else v


def ext_float(s):
    """True if s is in the extended grammar of float(str) (white space, '_',
    non-ASCII digits, inf / infinity / nan)."""
    t = _strip_space(s)
    i, n = 0, len(t)
    if i < n and t[i] in "+-":
        i += 1
    rest = ascii_lower(t[i:])
    if rest in ("inf", "infinity", "nan"):
        return True
    nd = 0
    e = _ext_digits(t, i)
    if e > 0:
        i = e
        nd += 1
    if i < n and t[i] == ".":
        i += 1
        e = _ext_digits(t, i)
        if e > 0:
            i = e
            nd += 1
    if nd == 0:
        return False
    if i < n and t[i] in "eE":
        i += 1
        if i < n and t[i] in "+-":
            i += 1
        e = _ext_digits(t, i)
        if e < 0:
            return False
        i = e
    return i == n


def float_bits(v):
    return struct.pack(">d", v)


def ref_float(s):
    p = plain_float(s)
    if p is not None:
        v = _to_float(p)
        if v is None:
            return _UNS              # overflows to infinity: non-finite floats are unspecified
        return (OK, v)
    if ext_float(s):
        return _UNS
    return _REJ


# --------------------------------------------------------------------------
# trivial types

def ref_string(s):
    return (OK, s) if is_ascii(s) else _UNS


def ref_null(s):
    return (OK, s)


def ref_string_list(s):
    out, cur = [], []
    for c in s:
        if c.isspace():
            if cur:
                out.append("".join(cur))
                cur = []
        else:
            cur.append(c)
    if cur:
        out.append("".join(cur))
    return (OK, out)


def ref_locale(s):
    return _UNS


BOOL_TRUE = ("yes", "true", "on")
BOOL_FALSE = ("no", "false", "off")


def ref_boolean(s):
    t = ascii_lower(s)
    if t in BOOL_TRUE:
        return (OK, True)
    if t in BOOL_FALSE:
        return (OK, False)
    return _REJ


# --------------------------------------------------------------------------
# key / name shapes

def ref_basic_key(s):
    if not s or not is_letter(s[0]):
        return _REJ
    for c in s[1:]:
        if not (is_letter(c) or is_digit(c) or c in "-._"):
            return _REJ
    return (OK, ascii_lower(s))


def _ident_ascii(s):
    if not s or not (is_letter(s[0]) or s[0] == "_"):
        return False
    for c in s[1:]:
        if not (is_letter(c) or is_digit(c) or c == "_"):
            return False
    return True


def _ident_unicode(s):
    return s.isidentifier()


def _split_dots(s):
    parts, cur = [], []
    for c in s:
        if c == ".":
            parts.append("".join(cur))
            cur = []
        else:
            cur.append(c)
    parts.append("".join(cur))
    return parts


def _two_readings(s, shape):
    a = shape(s, _ident_ascii)
    if is_ascii(s):
        return (OK, s) if a else _REJ
    u = shape(s, _ident_unicode)
    if a == u:
        return (OK, s) if a else _REJ      # pragma: a is False here (non-ASCII)
    return _UNS


def _shape_ident(s, ident):
    return ident(s)


def _shape_dotted(s, ident):
    for p in _split_dots(s):
        if not ident(p):
            return False
    return True


def _shape_suffix(s, ident):
    if s[:1] == ".":
        s = s[1:]
    return _shape_dotted(s, ident)


def ref_identifier(s):
    return _two_readings(s, _shape_ident)


def ref_dotted_name(s):
    return _two_readings(s, _shape_dotted)


def ref_dotted_suffix(s):
    return _two_readings(s, _shape_suffix)


# --------------------------------------------------------------------------
# suffix multipliers

BYTE_SUFFIXES = {"kb": 1024, "mb": 1024 * 1024, "gb": 1024 * 1024 * 1024}
TIME_SUFFIXES = {"s": 1, "m": 60, "h": 3600, "d": 86400}


def _ref_suffix(s, table, width):
    v = plain_int(s)
    if v is not None:
        return (OK, v)
    if len(s) > width:
        head, tail = s[:-width], s[-width:]
        m = table.get(ascii_lower(tail))
        if m is not None:
            v = plain_int(head)
            if v is not None:
                return (OK, v * m)
            if ext_int(head):
                return _UNS
            return _REJ
    # a suffix reachable only through non-ASCII case folding, or int()'s
    # extended grammar for the whole string / the part before a suffix
    low = s.lower()
    if not is_ascii(s):
        for k in table:
            if low.endswith(k):
                head = low[:-len(k)]
                if plain_int(head) is not None or ext_int(head):
                    return _UNS
    if ext_int(s):
        return _UNS
    return _REJ


def ref_byte_size(s):
    return _ref_suffix(s, BYTE_SUFFIXES, 2)


def ref_time_interval(s):
    return _ref_suffix(s, TIME_SUFFIXES, 1)


# --------------------------------------------------------------------------
# timedelta

UNITS = {"w": "weeks", "d": "days", "h": "hours", "m": "minutes", "s": "seconds"}


def td_unknown_unit(s):
    """True if some white-space separated part ends in something that is not a
    documented unit letter (TypeError is then an allowed report)."""
    for part in ref_string_list(s)[1]:
        if part[-1] not in UNITS:
            return True
    return False


def td_out_of_range(s):
    """True if some part is <number><unit> with a documented unit whose number is
    infinite, overflows a double, or (all parts taken together) exceeds what
    datetime.timedelta can hold."""
    kw = {}
    for part in ref_string_list(s)[1]:
        unit, num = part[-1], part[:-1]
        if unit not in UNITS:
            continue
        p = plain_float(num)
        if p is None:
            t = _strip_space(num)
            if t[:1] in ("+", "-"):
                t = t[1:]
            if ascii_lower(t) in ("inf", "infinity"):
                return True
            continue
        v = _to_float(p)
        if v is None:
            return True
        kw[UNITS[unit]] = v
    try:
        datetime.timedelta(**kw)
    except OverflowError:
        return True
    return False


def ref_timedelta(s):
    parts = ref_string_list(s)[1]
    if not parts:
        return _UNS
    kw = {}
    for part in parts:
        unit, num = part[-1], part[:-1]
        p = plain_float(num)
        if unit not in UNITS:
            if ascii_lower(unit) in UNITS and is_upper(unit):
                return _UNS                     # upper-case unit letters: docs silent
            if p is not None:
                return (REJECT, "TypeError")
            if ext_float(num):
                return _UNS
            return (REJECT, "either")
        if p is None:
            if ext_float(num):
                return _UNS
            return _REJ
        v = _to_float(p)
        if v is None:
            return _UNS                         # infinite: must still be total
        if UNITS[unit] in kw:
            return _UNS                         # repeated unit
        kw[UNITS[unit]] = v
    try:
        return (OK, datetime.timedelta(**kw))
    except OverflowError:
        return _REJ                             # out of range: ValueError expected


# --------------------------------------------------------------------------
# inet-address family, socket-address family

DEFAULT_HOSTS = {
    "inet-address": "",
    "inet-binding-address": "",
    "inet-connection-address": "127.0.0.1",
    "socket-address": "",
    "socket-binding-address": "",
    "socket-connection-address": "127.0.0.1",
}


def _host(h, default):
    low = ascii_lower(h)
    if low != h.lower():
        return None                 # non-ASCII case folding: unspecified
    return low if low else default


def _port(p):
    """-> int | 'reject' | 'unspec'"""
    v = plain_int(p)
    if v is not None:
        return v if 0 <= v <= 65535 else REJECT
    if ext_int(p):
        return UNSPEC
    return REJECT


def ref_inet(s, default):
    if s == "" or has_space(s):
        return _UNS
    ncolon = s.count(":")
    last = s.rfind(":")
    nbr = s.count("[") + s.count("]")
    if ncolon == 0:
        if nbr:
            return _UNS
        v = plain_int(s)
        if v is not None:
            if 0 <= v <= 65535:
                return (OK, (default, v))
            return _UNS             # a number that is no port: host name? error? silent
        if ext_int(s):
            return _UNS
        h = _host(s, default)
        if h is None:
            return _UNS
        return (OK, (h, None))
    left, p = s[:last], s[last + 1:]
    if len(left) >= 2 and left[0] == "[" and left[-1] == "]":
        inner = left[1:-1]
        if nbr != 2 or inner == "" or p == "":
            return _UNS
        port = _port(p)
        if port == REJECT:
            return _REJ
        if port == UNSPEC:
            return _UNS
        h = _host(inner, default)
        if h is None:
            return _UNS
        return (OK, (h, port))
    if nbr:
        return _UNS
    if ncolon >= 2:
        h = _host(s, default)
        if h is None:
            return _UNS
        return (OK, (h, None))
    # exactly one colon, no brackets
    if p == "":
        return _UNS
    port = _port(p)
    if port == REJECT:
        return _REJ
    if port == UNSPEC:
        return _UNS
    h = _host(left, default)
    if h is None:
        return _UNS
    return (OK, (h, port))


def ref_socket(s, default):
    if "/" in s:
        return (OK, (socket.AF_UNIX, s))
    r = ref_inet(s, default)
    if r[0] != OK:
        return r
    host = r[1][0]
    fam = socket.AF_INET6 if ":" in host else socket.AF_INET
    return (OK, (fam, r[1]))


# --------------------------------------------------------------------------
# ipaddr-or-hostname

def dotted_quad(s, leading_zero_ok=True):
    """Four '.'-separated fields of 1..3 ASCII digits, each 0..255.
    -> True / False / None (None: only leading zeros stand in the way)."""
    fields = _split_dots(s)
    if len(fields) != 4:
        return False
    lz = False
    for f in fields:
        if not (1 <= len(f) <= 3):
            return False
        v = 0
        for c in f:
            if not is_digit(c):
                return False
            v = v * 10 + (ord(c) - 48)
        if v > 255:
            return False
        if len(f) > 1 and f[0] == "0":
            lz = True
    if lz and not leading_zero_ok:
        return None
    return True


def ipv6_text(s):
    """RFC 4291 section 2.2 text forms.  -> True / False / None (unspecified:
    leading zeros in the embedded dotted quad)."""
    if not s:
        return False
    # locate '::' (at most one)
    dc = -1
    i = 0
    while i + 1 < len(s):
        if s[i] == ":" and s[i + 1] == ":":
            if dc >= 0:
                return False
            # ':::' is two overlapping '::'
            if i + 2 < len(s) and s[i + 2] == ":":
                return False
            dc = i
            i += 2
        else:
            i += 1
    if dc >= 0:
        left, right = s[:dc], s[dc + 2:]
        lg = _split_colons(left) if left else []
        rg = _split_colons(right) if right else []
    else:
        lg, rg = _split_colons(s), []
    groups = lg + rg
    count = 0
    unspec = False
    for idx, g in enumerate(groups):
        is_last = idx == len(groups) - 1 and (dc < 0 or len(rg) > 0)
        if "." in g:
            if not is_last:
                return False
            q = dotted_quad(g, leading_zero_ok=False)
            if q is False:
                return False
            if q is None:
                unspec = True
            count += 2
        else:
            if not (1 <= len(g) <= 4):
                return False
            for c in g:
                if not is_hex(c):
                    return False
            count += 1
    if dc >= 0:
        if count > 7:
            return False
    else:
        if count != 8:
            return False
    return None if unspec else True


def _split_colons(s):
    parts, cur = [], []
    for c in s:
        if c == ":":
            parts.append("".join(cur))
            cur = []
        else:
            cur.append(c)
    parts.append("".join(cur))
    return parts


def hostname_shape(s):
    """[A-Za-z_][-A-Za-z0-9_.]* not ending in '.'"""
    if not s or not (is_letter(s[0]) or s[0] == "_"):
        return False
    for c in s[1:]:
        if not (is_letter(c) or is_digit(c) or c in "-_."):
            return False
    return s[-1] != "."


def ref_ipaddr_or_hostname(s):
    if ":" in s:
        v = ipv6_text(s)
        if v is None:
            return _UNS
        return (OK, ascii_lower(s)) if v else _REJ
    if not s:
        return _REJ
    if is_digit(s[0]):
        return (OK, s) if dotted_quad(s) else _REJ
    if hostname_shape(s):
        if len(s) == 1:
            return _UNS
        return (OK, ascii_lower(s))
    return _REJ


def ipv6_selftest():
    """Cross-check ipv6_text once against the stdlib ipaddress module."""
    import ipaddress
    import itertools
    toks = ["", "0", "ffff", "AbC", "12345", "g", "1.2.3.4", "256.1.1.1", "1.2.3", "01.2.3.4"]
    cases = set()
    for n in range(1, 5):
        for t in itertools.product(toks, repeat=n):
            cases.add(":".join(t))
    small = ["", "1", "1.2.3.4"]
    for n in range(5, 10):
        for t in itertools.product(small, repeat=n):
            cases.add(":".join(t))
    cases.update(["::", "::1", "1::", "1:2:3:4:5:6:7:8", "1:2:3:4:5:6:7::", "::2:3:4:5:6:7:8",
                  "1:2:3:4:5:6:7:8:9", "1:2:3:4:5:6:1.2.3.4", "::ffff:1.2.3.4", "1::2::3", ":::",
                  "1:2:3:4:5:6:7:1.2.3.4", "fe80::1", "FE80::1", ":1", "1:", "1.2.3.4", ":"])
    n = 0
    for c in sorted(cases):
        mine = ipv6_text(c)
        if mine is None:
            continue
        try:
            ipaddress.IPv6Address(c)
            theirs = True
        except ValueError:
            theirs = False
        if "%" in c:
            continue
        if mine != theirs:
            raise AssertionError("ipv6_text(%r)=%r but ipaddress says %r" % (c, mine, theirs))
        n += 1
    return n


# --------------------------------------------------------------------------
# existing-* (evaluated against the live file system: cwd and HOME are the
# check's scratch directory)

def _expand(s):
    """'~' and '~/...' -> $HOME...; '~name' -> None (unspecified)."""
    if not s.startswith("~"):
        return s
    i = 1
    while i < len(s) and s[i] != "/":
        i += 1
    if i != 1:
        return None
    home = os.environ.get("HOME")
    if home is None:
        return None
    while len(home) > 1 and home.endswith("/"):
        home = home[:-1]
    return (home + s[1:]) or "/"


def _dirpart(s):
    i = len(s)
    while i > 0 and s[i - 1] != "/":
        i -= 1
    head = s[:i]
    stripped = head
    while stripped.endswith("/"):
        stripped = stripped[:-1]
    return stripped if stripped else head


def _fs_ok(s):
    return "\x00" not in s


def ref_existing_directory(s):
    nv = _expand(s)
    if nv is None:
        return _UNS
    return (OK, nv) if _fs_ok(nv) and os.path.isdir(nv) else _REJ


def ref_existing_path(s):
    nv = _expand(s)
    if nv is None:
        return _UNS
    if _fs_ok(nv) and os.path.exists(nv):
        return (OK, nv)
    if _fs_ok(nv) and os.path.lexists(nv):
        return _UNS                  # dangling symbolic link: docs say "or symlink", silent on dangling
    return _REJ


def ref_existing_file(s):
    nv = _expand(s)
    if nv is None:
        return _UNS
    if not _fs_ok(nv) or not os.path.exists(nv):
        return _REJ
    if os.path.isfile(nv):
        return (OK, nv)
    return _UNS                      # exists but is not a file: docs say "file", silent on others


def ref_existing_dirpath(s):
    nv = _expand(s)
    if nv is None:
        return _UNS
    d = _dirpart(nv)
    if not d:
        return (OK, nv)
    return (OK, nv) if _fs_ok(d) and os.path.isdir(d) else _REJ


# --------------------------------------------------------------------------
# table

def _inet(name):
    d = DEFAULT_HOSTS[name]
    return lambda s: ref_inet(s, d)


def _sock(name):
    d = DEFAULT_HOSTS[name]
    return lambda s: ref_socket(s, d)


REFERENCE = {
    "boolean": ref_boolean,
    "dotted-name": ref_dotted_name,
    "dotted-suffix": ref_dotted_suffix,
    "identifier": ref_identifier,
    "integer": ref_integer,
    "float": ref_float,
    "string": ref_string,
    "string-list": ref_string_list,
    "null": ref_null,
    "locale": ref_locale,
    "port-number": ref_port,
    "basic-key": ref_basic_key,
    "inet-address": _inet("inet-address"),
    "inet-binding-address": _inet("inet-binding-address"),
    "inet-connection-address": _inet("inet-connection-address"),
    "socket-address": _sock("socket-address"),
    "socket-binding-address": _sock("socket-binding-address"),
    "socket-connection-address": _sock("socket-connection-address"),
    "ipaddr-or-hostname": ref_ipaddr_or_hostname,
    "existing-directory": ref_existing_directory,
    "existing-path": ref_existing_path,
    "existing-file": ref_existing_file,
    "existing-dirpath": ref_existing_dirpath,
    "byte-size": ref_byte_size,
    "time-interval": ref_time_interval,
    "timedelta": ref_timedelta,
}

IDEMPOTENT = ("basic-key", "identifier", "ipaddr-or-hostname")


# --------------------------------------------------------------------------
# post-conditions on ANY returned value (also inside unspecified regions)

def _no_ascii_upper(s):
    for c in s:
        if "A" <= c <= "Z":
            return False
    return True


def _post_inet(v):
    if not (isinstance(v, tuple) and len(v) == 2):
        return "not a (host, port) pair"
    h, p = v
    if not isinstance(h, str):
        return "host is not a string"
    if not _no_ascii_upper(h):
        return "host not lower-cased"
    if p is not None and not (type(p) is int and 0 <= p <= 65535):
        return "port outside 0..65535"
    return None


def postcondition(name, s, v):
    """None, or a description of how the returned value breaks the documented
    contract of the datatype whatever the input was."""
    if name == "basic-key":
        if not isinstance(v, str) or ref_basic_key(v) != (OK, v):
            return "result is not a lower-case basic key"
    elif name == "boolean":
        if v is not True and v is not False:
            return "result is not a bool"
    elif name == "port-number":
        if type(v) is not int or not (0 <= v <= 65535):
            return "result is not an int in 0..65535"
    elif name in ("integer", "byte-size", "time-interval"):
        if type(v) is not int:
            return "result is not an int"
    elif name == "float":
        if type(v) is not float:
            return "result is not a float"
    elif name in ("identifier", "dotted-name", "dotted-suffix", "string", "locale"):
        if v != s or not isinstance(v, str):
            return "result differs from the input"
    elif name == "null":
        if v is not s:
            return "result is not the input object"
    elif name == "string-list":
        if not isinstance(v, list):
            return "result is not a list"
        for e in v:
            if not isinstance(e, str) or e == "" or has_space(e):
                return "element is empty or contains white space"
    elif name.startswith("inet-"):
        return _post_inet(v)
    elif name.startswith("socket-"):
        if not (isinstance(v, tuple) and len(v) == 2):
            return "not (family, address)"
        fam, addr = v
        if fam == socket.AF_UNIX:
            if addr != s:
                return "AF_UNIX address differs from the input"
        elif fam in (socket.AF_INET, socket.AF_INET6):
            m = _post_inet(addr)
            if m:
                return m
            if (":" in addr[0]) != (fam == socket.AF_INET6):
                return "family does not follow ':' in host"
        else:
            return "unknown family"
    elif name == "ipaddr-or-hostname":
        if not isinstance(v, str) or not _no_ascii_upper(v):
            return "result not lower-cased"
    elif name == "timedelta":
        if not isinstance(v, datetime.timedelta):
            return "result is not a timedelta"
    elif name.startswith("existing-"):
        if not isinstance(v, str):
            return "result is not a string"
    return None


# --------------------------------------------------------------------------
# Reference automata for engine E5 (full-match languages, all lengths)
#
# Every automaton reads *labels* (label(ch) below); its step function depends on
# the label only, so any partition of Unicode refining the labels is sound.

def label(ch):
    """Labels for the ipaddr-or-hostname automaton: every ASCII digit its own label."""
    o = ord(ch)
    if o < 128:
        if "a" <= ch <= "z":
            return "lower"
        if "A" <= ch <= "Z":
            return "upper"
        if "0" <= ch <= "9":
            return "d" + ch
        if ch in "_-.:\n":
            return ch
        return "ascii-other"
    return "u-nd" if ch.isdecimal() else "u-other"


def label_names(ch):
    """Labels for the key / identifier automata: digits merged (as "d0"), ':' ordinary."""
    o = ord(ch)
    if o < 128:
        if "a" <= ch <= "z":
            return "lower"
        if "A" <= ch <= "Z":
            return "upper"
        if "0" <= ch <= "9":
            return "d0"
        if ch in "_-.\n":
            return ch
        return "ascii-other"
    return _label_nonascii(ch)


def _label_nonascii(ch):
    if ch.isdecimal():
        return "u-nd"
    if ch.isidentifier():
        return "u-start"
    if ("a" + ch).isidentifier():
        return "u-cont"
    return "u-other"


ACC, REJ, UNS = "accept", "reject", "unspec"


class _TwoReadings:
    """Identifier-shaped languages under the ASCII and the Unicode reading of
    'identifier'; verdict unspec where the two disagree."""

    # shape states: 2 initial (suffix only), 0 expects identifier start, 1 inside identifier, -1 dead
    def __init__(self, kind):
        self.kind = kind
        init = 2 if kind == "dotted-suffix" else 0
        self.start = (init, init)

    def _step1(self, st, lab, unicode_reading):
        if st == -1:
            return -1
        is_start = lab in ("lower", "upper", "_") or (unicode_reading and lab == "u-start")
        is_cont = is_start or lab[0] == "d" and len(lab) == 2 or (
            unicode_reading and lab in ("u-cont", "u-nd"))
        if st == 2:
            if lab == ".":
                return 0
            return 1 if is_start else -1
        if st == 0:
            return 1 if is_start else -1
        # st == 1
        if is_cont:
            return 1
        if lab == "." and self.kind != "identifier":
            return 0
        return -1

    def step(self, state, lab):
        return (self._step1(state[0], lab, False), self._step1(state[1], lab, True))

    def verdict(self, state):
        a, u = state[0] == 1, state[1] == 1
        if a == u:
            return ACC if a else REJ
        return UNS

    def dead(self, state):
        return state == (-1, -1)


class _BasicKey:
    start = 0

    def step(self, st, lab):
        letter = lab in ("lower", "upper")
        if st == 0:
            return 1 if letter else -1
        if st == 1:
            if letter or (lab[0] == "d" and len(lab) == 2) or lab in ("-", ".", "_"):
                return 1
        return -1

    def verdict(self, st):
        return ACC if st == 1 else REJ

    def dead(self, st):
        return st == -1


class _IpOrHostNoColon:
    """ipaddr-or-hostname restricted to strings without ':' (a ':' leads to the
    absorbing state NA whose verdict is unspec: those strings belong to E1)."""
    start = ("S",)

    def step(self, st, lab):
        k = st[0]
        if k == "NA":
            return st
        if lab == ":":
            return ("NA",)             # any string containing ':' belongs to E1
        if k == "DEAD":
            return st
        digit = lab[0] == "d" and len(lab) == 2
        if k == "S":
            if lab in ("lower", "upper", "_"):
                return ("H", 1, False)
            if digit:
                return ("I", 0, 1, int(lab[1]))
            return ("DEAD",)
        if k == "H":
            if lab in ("lower", "upper", "_", "-") or digit:
                return ("H", 2, False)
            if lab == ".":
                return ("H", 2, True)
            return ("DEAD",)
        # k == "I": field number, digits in field, value of field
        _, f, nd, val = st
        if digit:
            d = int(lab[1])
            if nd == 0:
                return ("I", f, 1, d)
            if nd < 3 and val * 10 + d <= 255:
                return ("I", f, nd + 1, val * 10 + d)
            return ("DEAD",)
        if lab == "." and nd >= 1 and f < 3:
            return ("I", f + 1, 0, 0)
        return ("DEAD",)

    def verdict(self, st):
        k = st[0]
        if k == "NA":
            return UNS
        if k == "H":
            if st[1] == 1:
                return UNS
            return REJ if st[2] else ACC
        if k == "I":
            return ACC if st[1] == 3 and st[2] >= 1 else REJ
        return REJ

    def dead(self, st):
        return st[0] == "NA"


def automaton(name):
    if name == "basic-key":
        return _BasicKey()
    if name in ("identifier", "dotted-name", "dotted-suffix"):
        return _TwoReadings(name)
    if name == "ipaddr-or-hostname":
        return _IpOrHostNoColon()
    raise KeyError(name)


def label_function(name):
    return label if name == "ipaddr-or-hostname" else label_names


def automaton_verdict(name, s):
    a = automaton(name)
    lab = label_function(name)
    st = a.start
    for ch in s:
        st = a.step(st, lab(ch))
    return a.verdict(st)
