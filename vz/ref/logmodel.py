"""Reference model for C20 (logger component), written from the property
statement and the documentation (docs/using-logging.rst, docs/logging-components.rst
and the <description> texts of the component), not from the code under test.

Four independent pieces:

* level table and `classify_level`           (statement: names map case-insensitively to
                                               the documented numbers, integers outside
                                               0..50 are rejected)
* `logfile_verdict`                           (handler-class decision table of one
                                               <logfile> section, with UNSPEC regions)
* `unescape`, `python_render`, `make_record`  (what "rendering a record in the configured
                                               format and style" means: Python's own
                                               rendering of that format string)
* `RegistryModel`                             (factory memo + registry of reopenable
                                               handlers under call/reopen/close/drop)

This file must not be called logging.py (it imports the standard module).
"""
import logging
import string
import time

ACCEPT, REFUSE, UNSPEC = "accept", "refuse", "unspec"

# ----------------------------------------------------------------------------
# (a) levels.  Standard names have the numbers of the `logging` module
# documentation; the additional names are documented in handlers.xml
# (all=1, trace=5, blather=15); notset=0 ("the special name notset, or the
# numeric value 0").

LEVEL_TABLE = (
    ("critical", 50), ("fatal", 50),
    ("error", 40),
    ("warn", 30), ("warning", 30),
    ("info", 20),
    ("blather", 15),
    ("debug", 10),
    ("trace", 5),
    ("all", 1),
    ("notset", 0),
)
LEVEL_MIN, LEVEL_MAX = 0, 50
DEFAULT_LOGGER_LEVEL = 20       # base-logger.xml: default="info"
DEFAULT_HANDLER_LEVEL = 0       # handlers.xml:    default="notset"

_ASCII_UP = "ABCDEFGHIJKLMNOPQRSTUVWXYZ"
_ASCII_LO = "abcdefghijklmnopqrstuvwxyz"


def ascii_lower(s):
    out = []
    for ch in s:
        i = _ASCII_UP.find(ch)
        out.append(_ASCII_LO[i] if i >= 0 else ch)
    return "".join(out)


def _canonical_int(s):
    """'0', '7', '-3', '52': optional '-', ASCII digits, no leading zero, no '-0'."""
    body = s[1:] if s[:1] == "-" else s
    if not body:
        return None
    for ch in body:
        if ch not in "0123456789":
            return None
    if len(body) > 1 and body[0] == "0":
        return None
    if s[:1] == "-" and body == "0":
        return None
    n = 0
    for ch in body:
        n = n * 10 + "0123456789".index(ch)
    return -n if s[:1] == "-" else n


def classify_level(s):
    """-> (ACCEPT, number, clause) | (REFUSE, None, clause) | (UNSPEC, None, clause)"""
    low = ascii_lower(s)
    for name, num in LEVEL_TABLE:
        if low == name:
            return ACCEPT, num, "level-name"
    n = _canonical_int(s)
    if n is not None:
        if LEVEL_MIN <= n <= LEVEL_MAX:
            return ACCEPT, n, "level-int-in-range"
        return REFUSE, None, "level-int-out-of-range"
    # spellings some integer parser might take (sign, padding, blanks,
    # underscores, non-ASCII digits): the statement does not say
    if s and any(ch.isdigit() for ch in s) and all(
            ch.isdigit() or ch in " \t+-_" for ch in s):
        return UNSPEC, None, "level-noncanonical-int"
    return REFUSE, None, "level-junk"


# ----------------------------------------------------------------------------
# (b) one <logfile> section

STREAM, FILE, ROTATING, TIMED = ("StreamHandler", "FileHandler",
                                 "RotatingFileHandler", "TimedRotatingFileHandler")

# seconds per unit of `when` (logging.handlers.TimedRotatingFileHandler documentation)
WHEN_SECONDS = {"S": 1, "M": 60, "H": 3600, "D": 86400, "MIDNIGHT": 86400}
for _d in range(7):
    WHEN_SECONDS["W%d" % _d] = 7 * 86400

BYTE_UNITS = {"": 1, "kb": 1024, "mb": 1024 ** 2, "gb": 1024 ** 3}


def byte_size(text):
    low = ascii_lower(text)
    for suf in ("kb", "mb", "gb"):
        if low.endswith(suf):
            return int(low[:-2]) * BYTE_UNITS[suf]
    return int(low)


def boolean(text):
    low = ascii_lower(text)
    if low in ("true", "yes", "on"):
        return True
    if low in ("false", "no", "off"):
        return False
    raise ValueError(text)


def logfile_verdict(opts):
    """Decision table.  opts: path ('STDOUT' | 'STDERR' | anything else = file),
    and the *texts* (or None when the option is absent) of max_size, old_files,
    when, interval, delay, encoding.

    -> (verdict, clause, expected) with expected = dict(cls=..., and attributes)
    for ACCEPT, None otherwise."""
    path = opts["path"]
    max_size = byte_size(opts["max_size"]) if opts.get("max_size") is not None else None
    old_files = int(opts["old_files"]) if opts.get("old_files") is not None else None
    when = opts.get("when")
    interval = int(opts["interval"]) if opts.get("interval") is not None else None
    delay = boolean(opts["delay"]) if opts.get("delay") is not None else None
    encoding = opts.get("encoding")

    if path in ("STDOUT", "STDERR"):
        # "the max-size, old-files, when, delay and encoding options are refused
        #  for STDOUT/STDERR"
        if max_size:
            return REFUSE, "std-max-size", None
        if old_files:
            return REFUSE, "std-old-files", None
        if when:
            return REFUSE, "std-when", None
        if delay:
            return REFUSE, "std-delay", None
        if encoding:
            return REFUSE, "std-encoding", None
        # an option written with the value that means "not configured"
        # (max-size 0, old-files 0, delay false): indistinguishable from absent
        # in the documented data model; the statement does not say
        if max_size is not None or old_files is not None or delay is not None:
            return UNSPEC, "std-option-with-neutral-value", None
        if interval:
            # docs: "If when is not specified, it is an error to specify interval";
            # the statement is silent about interval on a standard stream
            return UNSPEC, "std-interval", None
        return ACCEPT, "std-stream", {"cls": STREAM, "stream": path}

    rotation = bool(when) or bool(max_size)
    if rotation and not (old_files and old_files > 0):
        # "rotation of a file requires old-files"
        return REFUSE, "rotation-needs-old-files", None
    if when and max_size:
        return UNSPEC, "both-when-and-max-size", None
    if interval and not when:
        return UNSPEC, "interval-without-when", None
    if old_files and not rotation:
        return UNSPEC, "old-files-without-rotation", None
    if old_files is not None and old_files < 0:
        return UNSPEC, "negative-old-files", None
    exp = {"delay": bool(delay), "encoding": encoding or None, "mode": "a"}
    if when:
        unit = WHEN_SECONDS.get(when.upper())
        if unit is None:
            return UNSPEC, "unknown-when", None
        exp.update(cls=TIMED, when=when.upper(), interval=unit * (interval or 1),
                   backupCount=old_files)
        return ACCEPT, "timed-rotation", exp
    if max_size:
        exp.update(cls=ROTATING, maxBytes=max_size, backupCount=old_files)
        return ACCEPT, "size-rotation", exp
    exp.update(cls=FILE)
    return ACCEPT, "plain-file", exp


# ----------------------------------------------------------------------------
# (d) formats

STYLES = ("classic", "format", "template", "safe-template")
PY_STYLE = {"classic": "%", "format": "{", "template": "$"}
DEFAULT_DATEFORMAT = "%Y-%m-%dT%H:%M:%S"         # handlers.xml, key dateformat
DEFAULT_LOGFILE_FORMAT = "------\n%(asctime)s %(levelname)s %(name)s %(message)s"

# attributes of a LogRecord made by logging.LogRecord(...) without extras, as
# listed in the `logging` documentation ("LogRecord attributes")
FIELDS = (
    "name", "levelno", "levelname", "pathname", "filename", "module", "lineno",
    "funcName", "created", "asctime", "msecs", "relativeCreated", "thread",
    "threadName", "process", "processName", "message", "msg", "args",
    "exc_info", "exc_text", "stack_info",
)

_ESCAPES = {"n": "\n", "t": "\t", "b": "\b", "f": "\f", "r": "\r"}


def unescape(s):
    r"""The five documented two-character escapes \b \f \n \r \t, left to right."""
    out = []
    i = 0
    while i < len(s):
        if s[i] == "\\" and i + 1 < len(s) and s[i + 1] in _ESCAPES:
            out.append(_ESCAPES[s[i + 1]])
            i += 2
        else:
            out.append(s[i])
            i += 1
    return "".join(out)


# An "ordinary record": what Logger.warning("msg %s %d", "arg", 7) produces in
# the main thread of a 64-bit Linux process; time, pid and thread id pinned.
RECORD_CREATED = 1700000000.123456
RECORD_THREAD = 140737353955136         # a pthread_t as CPython reports it on x86-64 Linux
RECORD_PROCESS = 4242


def make_record():
    r = logging.LogRecord("vz.rec", logging.WARNING, "/srv/app/pkg/mod.py", 42,
                          "msg %s %d", ("arg", 7), None, "func")
    r.created = RECORD_CREATED
    r.msecs = 123.0
    r.relativeCreated = 1234.5678
    r.thread = RECORD_THREAD
    r.threadName = "MainThread"
    r.process = RECORD_PROCESS
    r.processName = "MainProcess"
    return r


def python_render(style, fmt, datefmt, record):
    """Python's own rendering of `fmt` (already unescaped) under `style`.

    The three standard styles are rendered by a logging.Formatter built here
    (validate=False: only rendering is asked, not logging's opinion on the
    format); safe-template has no counterpart in `logging`, it is
    string.Template.safe_substitute over the record's attributes with `message`
    and (when referenced) `asctime` filled in the way logging.Formatter does."""
    if style in PY_STYLE:
        f = logging.Formatter(fmt, datefmt, style=PY_STYLE[style], validate=False)
        return f.format(record)
    fmt = fmt or "${message}"
    d = dict(record.__dict__)
    d["message"] = record.getMessage()
    if "$asctime" in fmt or "${asctime}" in fmt:
        d["asctime"] = time.strftime(datefmt, time.localtime(record.created))
    return string.Template(fmt).safe_substitute(d)


def python_validates(style, fmt, datefmt=None):
    """Does logging.Formatter itself take this format under this style?"""
    if style not in PY_STYLE:
        return None
    try:
        logging.Formatter(fmt, datefmt, style=PY_STYLE[style])
    except ValueError:
        return False
    return True


# ----------------------------------------------------------------------------
# (e) factory memo + registry of reopenable handlers

class RegistryModel:
    """slots[j] is None (factory j holds no handler) or a dict
    {registered: bool, open: bool}.  `delay[j]` says whether handler j opens
    its file lazily (we never emit, so a delayed handler never has a stream)."""

    def __init__(self, delays):
        self.delay = list(delays)
        self.slots = [None] * len(self.delay)
        self.order = []          # registration order of registered slots

    def call_factory(self, j):
        """-> True when a new handler is created"""
        if self.slots[j] is None:
            self.slots[j] = {"registered": True, "open": not self.delay[j]}
            self.order.append(j)
            return True
        return False

    def reopen(self):
        """-> slots acted on; a reopened handler has a stream again unless delayed"""
        acted = [j for j in self.order]
        for j in acted:
            self.slots[j]["open"] = not self.delay[j]
        return acted

    def close_all(self):
        acted = [j for j in self.order]
        for j in acted:
            self.slots[j]["registered"] = False
            self.slots[j]["open"] = False
        self.order = []
        return acted

    def drop(self, j):
        if self.slots[j] is not None:
            self.slots[j] = None
            if j in self.order:
                self.order.remove(j)
            return True
        return False

    def registered(self):
        return sorted(self.order)

    def state(self):
        return tuple(None if s is None else (s["registered"], s["open"]) for s in self.slots)
