"""Reference model for C20 part (g): one <logger>/<eventlog> section with n handler
sections whose creation may FAIL when the factory is called (environment fault),
driven by {call the logger factory, call handler factory j, repair fault j,
reopenFiles, closeFiles}.

Written from the property statement and the documentation of
ZConfig.components.logger.factory.Factory ("calling the factory causes the
instance to be created if it hasn't already been created, and returns the object;
calling the factory multiple times returns the same object"):

 * a handler factory holds at most one handler; a call that cannot create it
   (unrepaired fault on a handler that opens its file at creation) raises and
   leaves nothing behind; a later call creates it once the fault is gone;
 * the logger factory, when it returns, has attached exactly one handler per
   section, in section order - the product of that section's handler factory,
   whether it was created by this call, by an earlier call that failed further
   down the list, or by a direct call of the handler factory; a call that reaches
   an uncreatable handler does not return normally; once it has returned, every
   later call returns the same logger and adds nothing;
 * the registry of reopenable handlers = created, not yet closed FILE handlers
   (stream handlers on STDOUT never register).
"""

REPAIRABLE = "repairable"
PERMANENT = "permanent"


class FaultModel:
    def __init__(self, slots):
        """slots: list of dicts {file: bool, delay: bool, fault: None | REPAIRABLE | PERMANENT}"""
        self.n = len(slots)
        self.file = [bool(s["file"]) for s in slots]
        self.delay = [bool(s["delay"]) for s in slots]
        self.fault = [s["fault"] for s in slots]
        self.slots = [None] * self.n     # None | {"registered": bool, "open": bool}
        self.order = []                  # registration order
        self.configured = False          # the logger factory has returned once
        self.failed_calls = 0
        self.retries_after_failure = 0   # logger-factory calls made after a failed one
        self.completed_after_failure = False

    # -- helpers
    def faulty(self, j):
        """Would creating handler j fail now?  (A delayed handler does not open its
        file when it is created, a stream handler opens nothing.)"""
        return self.fault[j] is not None and self.file[j] and not self.delay[j]

    def _create(self, j):
        reg = self.file[j]
        self.slots[j] = {"registered": reg, "open": self.file[j] and not self.delay[j]}
        if reg:
            self.order.append(j)

    # -- operations
    def handler_call(self, j):
        """-> 'same' | 'raise' | 'create'"""
        if self.slots[j] is not None:
            return "same"
        if self.faulty(j):
            return "raise"
        self._create(j)
        return "create"

    def logger_call(self):
        """-> ('same', [], None) | ('raise', created, j) | ('ok', created, None)"""
        if self.configured:
            return "same", [], None
        if self.failed_calls:
            self.retries_after_failure += 1
        created = []
        for j in range(self.n):
            if self.slots[j] is not None:
                continue
            if self.faulty(j):
                self.failed_calls += 1
                return "raise", created, j
            self._create(j)
            created.append(j)
        self.configured = True
        if self.failed_calls:
            self.completed_after_failure = True
        return "ok", created, None

    def repair(self, j):
        if self.fault[j] == REPAIRABLE:
            self.fault[j] = None
            return True
        return False

    def reopen(self):
        acted = list(self.order)
        for j in acted:
            self.slots[j]["open"] = not self.delay[j]
        return acted

    def close_all(self):
        acted = list(self.order)
        for j in acted:
            self.slots[j]["registered"] = False
            self.slots[j]["open"] = False
        self.order = []
        return acted

    def registered(self):
        return sorted(self.order)

    def state(self):
        return (tuple(None if s is None else (s["registered"], s["open"]) for s in self.slots),
                tuple(self.fault), self.configured)
