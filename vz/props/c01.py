"""C01 - a configuration is accepted if and only if it conforms to the schema.

Engine E2 (vz.engine.bfs) over the generated schema family F: for every schema
and every event sequence up to the depth bound (deduplicated on the
implementation's canonical open-matcher state) the completed text is loaded with
ZConfig.loadConfigFile and the accept/reject outcome is compared with the
reference conformance predicate vz.ref.match.decide.

Wave 5 adds two parts on a second schema family, the KEY-TYPE MIX (every
container of one schema carries its own key type; key tokens are one
representative of each membership class of the key types' languages):
  part "kt"   - the same BFS over a lean vocabulary, so one spelling meets
                several key types at schema-parse time, earlier in the same
                text, and in earlier texts on the same schema object;
  part "hist" - every ORDERED PAIR of short texts loaded one after the other
                (same schema object / an earlier, different schema), both
                verdicts compared with the history-free reference.
"""
import itertools

from vz import core
from vz.engine import bfs
from vz.gen import schema as M
from vz.harness import load as H
from vz.ref import match as R


def family(tier):
    """-> list of (label, items, placement, keytype, envkw, depth, full_menu)"""
    fam = []
    base = M.selections(2)
    if tier == "quick":
        for lab, items in M.selections(2, full=True):
            fam.append((lab, items, 0, None, {}, 3))
        for lab, items in base:
            fam.append((lab, items, 1, None, {}, 3))
        for lab, items in M.selections(1):
            for kt in (None, "identifier", "ipaddr-or-hostname"):
                for envkw in ({}, {"nimpl": 0}, {"nimpl": 3}, {"l1_required": True},
                              {"l1_datatype": M.SECT_DT_REJECT}, {"l1_datatype": M.SECT_DT_WRAP}):
                    if kt is None and not envkw:
                        continue
                    fam.append((lab, items, 0, kt, envkw, 4))
            for p in (0, 1, 2):
                fam.append((lab, items, p, None, {}, 4))
    else:
        for lab, items in M.selections(2, full=True):
            fam.append((lab, items, 0, None, {}, 3))
        for lab, items in base:
            for p in (1, 2):
                fam.append((lab, items, p, None, {}, 3))
            for kt in ("identifier", "ipaddr-or-hostname"):
                fam.append((lab, items, 0, kt, {}, 3))
            for envkw in ({"nimpl": 0}, {"nimpl": 1}, {"nimpl": 3}, {"l1_required": True},
                          {"l1_datatype": M.SECT_DT_REJECT}, {"l1_datatype": M.SECT_DT_WRAP}):
                fam.append((lab, items, 0, None, envkw, 3))
        for lab, items in M.selections(1):
            for kt in (None, "identifier", "ipaddr-or-hostname"):
                for p in (0, 1, 2):
                    fam.append((lab, items, p, kt, {}, 5))
        # deeper / wider: every pair of the reduced menu to depth 4, and every third ordered TRIPLE of the reduced
        # menu to depth 3 (three items interact: wildcard key + two slots, two keys + a slot, ...)
        for lab, items in base:
            if len(items) == 2:
                fam.append((lab, items, 0, None, {"_tag": "d4"}, 4))
        for i, (lab, items) in enumerate(M.selections(3)):
            if len(items) == 3 and i % 3 == 0:
                fam.append((lab, items, 0, None, {}, 3))
    return fam


def build(member):
    lab, items, placement, kt, envkw, depth = member
    envkw = {k: v for k, v in envkw.items() if not k.startswith("_")}
    env = M.type_env(**dict(envkw, keytype=kt) if kt else envkw)
    S, root = M.place(items, placement, env, keytype=kt)
    return S, root


# ---------------------------------------------------------------------------
# wave 5: the key-type mix family  (parts "kt" and "hist")

# key-type alphabet: the three stock key types spelled explicitly, and None = no keytype attribute at all (the
# documented default basic-key - NOT inherited from the enclosing schema or from the section that contains it)
KT_ALPHABET = (None, "basic-key", "identifier", "ipaddr-or-hostname")
KT_NAMES = ("basic-key", "identifier", "ipaddr-or-hostname")

# one representative of each of the 2**3 membership classes of (basic-key, identifier, host name), inside the
# domain of the reference's host-name model (no colon, no leading digit), plus a case variant of the token all
# three accept (basic-key and host names fold case, identifiers do not)
KT_TOKENS = ("zz", "Zz", "q", "a-b", "_a", "a.", "_", "_a-b", "-x")

KT_EXTRA_MENU = (
    ("key-Zz", lambda p: M.Key("Zz", attribute="c%d" % p)),
    ("multikey-Zz", lambda p: M.MultiKey("Zz", attribute="c%d" % p)),
    ("key-Zz-required", lambda p: M.Key("Zz", attribute="c%d" % p, required=True)),
)


def kt_name(kt):
    return kt or "basic-key"


def kt_membership(tok):
    """Which of the three key types accept `tok` (by the reference's table-free models)."""
    return tuple(R.KEYTYPES[k](tok) is not None for k in KT_NAMES)


def kt_contents(tier):
    """Label tuples of the container under test of the key-type mix family."""
    quick = [(), ("pluskey",), ("plusmultikey",), ("pluskey-required",), ("key-Zz",), ("key-Zz", "pluskey")]
    if tier == "quick":
        return quick
    return quick + [("pluskey", "key-Zz"), ("key-string",), ("key-string-required",), ("multikey-string",),
                    ("multikey-Zz",), ("key-Zz-required",), ("pluskey-defaults",), ("plusmultikey-defaults",),
                    ("plusmultikey-required",), ("pluskey-required-defaults",), ("multikey-Zz", "plusmultikey"),
                    ("key-Zz-required", "pluskey-required")]


def kt_family(tier):
    """-> members ("kt", labels, (kt_schema, kt_sib, kt_cut), depth) and ("hist", labels, kts, modes)"""
    fam = []
    if tier == "quick":
        triples = [(o, o, c) for o in KT_ALPHABET for c in KT_ALPHABET]
        depth = 5
    else:
        triples = list(itertools.product(KT_ALPHABET, repeat=3))
        depth = 5       # (depth 6 on the 1 152 schemas of this tier did not finish in 7 minutes on 16 cores)
    for kts in triples:
        for lab in kt_contents(tier):
            fam.append(("kt", lab, kts, depth))
    hist_contents = [("pluskey",), ("key-Zz", "pluskey")] if tier == "quick" else \
        [(), ("pluskey",), ("plusmultikey",), ("key-Zz",), ("key-Zz", "pluskey"), ("pluskey-required",)]
    hist_triples = [(o, o, c) for o in KT_ALPHABET[1:] for c in KT_ALPHABET[1:]] if tier == "quick" else \
        [(o, s, c) for o in KT_ALPHABET for s in KT_ALPHABET[1:] for c in KT_ALPHABET]
    for kts in hist_triples:
        for lab in hist_contents:
            fam.append(("hist", lab, kts, ("same-object", "earlier-schema")))
    return fam


def kt_build(labels, kts):
    """Schema (key type kts[0]) declaring a multikey for every token its key type accepts, a '*' multisection of
    'sib' (key type kts[1], one '+' key) and a '*' multisection of the container under test 'cut' (key type
    kts[2], the items named by `labels`)."""
    kt_s, kt_sib, kt_cut = kts
    items = M.items_from_labels(labels, extra_menus=(KT_EXTRA_MENU,))
    decl, seen = [], set()
    norm = R.KEYTYPES[kt_name(kt_s)]
    for i, t in enumerate(KT_TOKENS):
        n = norm(t)
        if n is None or n in seen:
            continue
        seen.add(n)
        decl.append(M.MultiKey(t, attribute="d%d" % i))
    sib = M.SType("sib", (M.Key("+", attribute="sw"),), keytype=kt_sib)
    cut = M.SType("cut", items, keytype=kt_cut)
    return M.Schema(types=(sib, cut), keytype=kt_s,
                    items=tuple(decl) + (M.Sect("*", "sib", attribute="sibs", multi=True),
                                         M.Sect("*", "cut", attribute="cuts", multi=True)))


def kt_vocabulary(S, tname, can_close):
    """Lean vocabulary of the key-type mix family: every token as a key line, the other declared keys, the two
    section types (top level only), the closer."""
    evs = [("k", t, "v") for t in KT_TOKENS]
    for it in M.eff_items(S, tname):
        if isinstance(it, (M.Key, M.MultiKey)) and it.name != "+" and it.name not in KT_TOKENS:
            evs.append(("k", it.name, M.VALUE_TOKENS[it.datatype][0]))
    if tname is None:
        evs += [("o", "cut", None), ("o", "sib", None), ("e", "cut", None)]
    if can_close:
        evs.append(("c",))
    return evs


def kt_note(S, hist, acc):
    """Evidence counters of the new axis: was the spelling of the last key line one that ANOTHER key type of this
    schema accepts while the key type of its own container refuses it (or the other way round), and had it been
    used before in the same text under a key type that accepts it?"""
    if not hist or hist[-1][0] != "k":
        return
    tok = hist[-1][1]
    st = R.open_stack(S, hist)
    own = kt_name(M.eff_keytype(S, st[-1]))
    others = set(kt_name(M.eff_keytype(S, t)) for t in (None, "sib", "cut")) - {own}
    ok_own = R.KEYTYPES[own](tok) is not None
    ok_other = any(R.KEYTYPES[o](tok) is not None for o in others)
    if not others:
        acc.extra["kt_key_lines_uniform_schema"] += 1
        return
    acc.extra["kt_key_lines_mixed_schema"] += 1
    if ok_other and not ok_own:
        acc.extra["kt_refused_here_accepted_by_other_key_type_of_schema"] += 1
        for j, ev in enumerate(hist[:-1]):
            if ev[0] == "k" and ev[1] == tok:
                c = kt_name(M.eff_keytype(S, R.open_stack(S, hist[:j + 1])[-1]))
                if R.KEYTYPES[c](tok) is not None:
                    acc.extra["kt_refused_here_after_use_in_same_text_under_accepting_key_type"] += 1
                    break
    elif ok_own and not ok_other:
        acc.extra["kt_accepted_here_refused_by_other_key_types_of_schema"] += 1
    if ok_own and any(R.KEYTYPES[o](tok) not in (None, R.KEYTYPES[own](tok)) for o in others):
        acc.extra["kt_normal_form_differs_between_key_types_of_schema"] += 1


def explore_vocab(S, sch, depth, acc, check, vocab):
    """vz.engine.bfs.explore with the vocabulary as a parameter (root = the empty text)."""
    seen = set()
    k0 = H.impl_state(sch, H.render_events((), close=False))
    if k0 is None:
        raise core.HarnessError("empty text refused by the implementation")
    seen.add(k0)
    check((), H.render_events(()))
    frontier = [()]
    level = 0
    while frontier and level < depth:
        nxt = []
        for hist in frontier:
            st = R.open_stack(S, hist)
            for ev in vocab(S, st[-1], len(st) > 1):
                h2 = hist + (ev,)
                acc.current = h2
                alive = check(h2, H.render_events(h2))
                acc.transitions += 1
                acc.traces += 1
                if alive and level + 1 < depth:
                    k = H.impl_state(sch, H.render_events(h2, close=False))
                    if k is not None and k not in seen:
                        seen.add(k)
                        nxt.append(h2)
        frontier = nxt
        level += 1
    acc.states += len(seen)
    return len(seen)


def kt_member_id(member, xml):
    return {"part": member[0], "label": list(member[1]), "kts": list(member[2]),
            "depth": member[3] if member[0] == "kt" else None, "schema": xml}


def kt_shard(member, acc):
    _, labels, kts, depth = member
    S = kt_build(labels, kts)
    xml = M.render(S)
    sch = H.load_schema(xml)
    mid = kt_member_id(member, xml)
    prev = [None]

    def check(h, t):
        alive = check_case(S, sch, h, t, acc, mid, extra={"previous_text_on_this_schema_object": prev[0]},
                           tags={"part": "kt"})
        kt_note(S, h, acc)
        prev[0] = t
        return alive
    explore_vocab(S, sch, depth, acc, check, kt_vocabulary)
    acc.extra["schemas"] += 1
    acc.extra["kt_schemas"] += 1
    if len(set(kt_name(k) for k in kts)) > 1:
        acc.extra["kt_schemas_mixing_key_types"] += 1
    if None in kts:
        acc.extra["kt_schemas_with_implicit_key_type"] += 1
    return acc


def hist_texts():
    """The short texts of part "hist": the empty text, every token as a top-level key line, every token as the
    only key line of a 'sib' and of a 'cut' section."""
    out = [()]
    for t in KT_TOKENS:
        out.append((("k", t, "v"),))
    for sec in ("sib", "cut"):
        for t in KT_TOKENS:
            out.append((("o", sec, None), ("k", t, "v")))
    return out


def hist_other(kts):
    """The EARLIER schema of mode "earlier-schema": same shape, key types of surroundings and container exchanged."""
    return (kts[2], kts[2], kts[0])


def hist_pair(S, xml, S0, xml0, mode, h1, h2, acc, mid):
    """One two-step history on freshly parsed schema objects: h1 (on the same object, or on an object of the earlier
    schema S0), then h2 on S.  Both observed verdicts must equal the reference's, which knows no history."""
    if mode == "same-object":
        sch1 = sch2 = H.load_schema(xml)
        S1 = S
    else:
        sch1 = H.load_schema(xml0)
        sch2 = H.load_schema(xml)
        S1 = S0
    t1, t2 = H.render_events(h1), H.render_events(h2)
    acc.ev()
    acc.extra["hist_pairs"] += 1
    ok = True
    for step, (Sx, schx, h, t) in enumerate(((S1, sch1, h1, t1), (S, sch2, h2, t2))):
        obs = H.load(schx, t)
        ref = R.decide(Sx, h)
        case = {"member": mid, "mode": mode, "first_events": [list(e) for e in h1], "first_text": t1,
                "events": [list(e) for e in h2], "text": t2, "failing_step": step + 1}
        if obs[0] == "internal":
            d = core.exc_desc(obs[1])
            acc.cls("internal")
            acc.violation("internal-error", case, d, ref.verdict,
                          tags={"kind": "internal-error", "exc": d["class"], "where": d["where"], "part": "hist"})
            ok = False
            continue
        o = "A" if obs[0] == "ok" else "R"
        if step == 1:
            acc.cls("ref=%s impl=%s" % (ref.verdict, o))
            acc.clause(ref.clause)
            acc.sample(lambda: dict(case, reference=[ref.verdict, ref.clause], observed=o))
        if ref.verdict != "U" and o != ref.verdict:
            acc.violation("accepted-nonconforming" if o == "A" else "rejected-conforming", case,
                          o if o == "A" else [o, type(obs[1]).__name__, str(obs[1])[:160]],
                          [ref.verdict, ref.clause],
                          tags={"kind": "verdict", "ref": ref.verdict, "clause": ref.clause, "part": "hist",
                                "mode": mode, "step": step + 1})
            ok = False
    return ok


def hist_shard(member, acc):
    _, labels, kts, modes = member
    S = kt_build(labels, kts)
    xml = M.render(S)
    S0 = kt_build(labels, hist_other(kts))
    xml0 = M.render(S0)
    mid = kt_member_id(member, xml)
    texts = hist_texts()
    refs = {h: R.decide(S, h) for h in texts}
    for mode in modes:
        for h1 in texts:
            for h2 in texts:
                acc.current = (mode, h1, h2)
                hist_pair(S, xml, S0, xml0, mode, h1, h2, acc, mid)
                r2 = refs[h2]
                if h1 and h2 and r2.verdict != "U" and r2.clause != "unknown-type":
                    acc.nt()
                # did the first text show the second text's spelling to a key type that accepts it, while the key
                # type the second text meets refuses it?
                if h1 and h2 and r2.clause == "key-normalisation-fails" and h1[-1][1] == h2[-1][1]:
                    S1 = S if mode == "same-object" else S0
                    if R.decide(S1, h1).clause != "key-normalisation-fails":
                        acc.extra["hist_pairs_spelling_refused_now_accepted_by_key_type_of_first_load"] += 1
    acc.extra["hist_schemas"] += 1
    return acc


def check_case(S, sch, hist, text, acc, member_id, extra=None, tags=None):
    obs = H.load(sch, text)
    ref = R.decide(S, hist)
    acc.ev()
    acc.clause(ref.clause)
    case = {"member": member_id, "events": [list(e) for e in hist], "text": text}
    if extra:
        case.update(extra)
    tags = tags or {}
    if obs[0] == "internal":
        d = core.exc_desc(obs[1])
        acc.cls("internal")
        acc.violation("internal-error", case, d, ref.verdict,
                      tags=dict(tags, kind="internal-error", exc=d["class"], where=d["where"]))
        return False
    o = "A" if obs[0] == "ok" else "R"
    acc.cls("ref=%s impl=%s" % (ref.verdict, o))
    if ref.verdict != "U" and any(e[0] != "c" for e in hist) and ref.clause != "unknown-type":
        acc.nt()
    acc.sample(lambda: dict(case, reference=[ref.verdict, ref.clause], observed=o))
    if ref.verdict == "U":
        return False
    if o != ref.verdict:
        acc.violation("accepted-nonconforming" if o == "A" else "rejected-conforming", case,
                      o if o == "A" else [o, type(obs[1]).__name__, str(obs[1])[:160]],
                      [ref.verdict, ref.clause],
                      tags=dict(tags, kind="verdict", ref=ref.verdict, clause=ref.clause))
        return False
    return True


def shard(member, acc):
    if member[0] == "kt":
        return kt_shard(member, acc)
    if member[0] == "hist":
        return hist_shard(member, acc)
    S, root = build(member)
    xml = M.render(S)
    sch = H.load_schema(xml)
    mid = {"label": list(member[0]), "placement": member[2], "keytype": member[3], "env": member[4],
           "depth": member[5], "schema": xml}
    bfs.explore(S, sch, root, member[5], acc, lambda h, t: check_case(S, sch, h, t, acc, mid))
    acc.extra["schemas"] += 1
    return acc


def run(tier):
    fam = family(tier)
    ktfam = kt_family(tier)
    n_kt = sum(1 for m in ktfam if m[0] == "kt")
    run = core.Run(
        "C01", tier, "model_checking",
        rule="for every schema of the family (ordered selections of <= 2 items from the item menu as "
             "container under test, placements top / 1 / 2 levels down, key types basic-key / identifier / "
             "ipaddr-or-hostname, type-environment variants) a breadth-first search over event sequences "
             "(key lines, section headers in both spellings, closers; vocabulary derived from the schema plus "
             "out-of-vocabulary tokens) up to the depth bound, states = canonical open-matcher state of the "
             "implementation; every transition's completed text is loaded and compared with the reference "
             "conformance predicate.  Non-trivial = sequence with >= 1 key/section event whose reference "
             "verdict is decided (not UNSPEC) by a clause other than unknown-type; sequences are distinct "
             "by construction (BFS extends one representative per state).  "
             "KEY-TYPE MIX (wave 5): a second family in which every container carries its OWN key type - the "
             "schema (which declares a multikey for every token its key type accepts), a sibling section type "
             "'sib' with a '+' key, and the container under test 'cut' - over the alphabet {no keytype attribute "
             "(= basic-key, never inherited), basic-key, identifier, ipaddr-or-hostname}; key lines use one token "
             "of each of the 8 membership classes of the three key types' languages plus a case variant, so a "
             "spelling that one key type of the schema accepts meets another that refuses it (or normalises it "
             "differently) after it was seen at schema-parse time, earlier in the same text, or in an earlier "
             "text on the same schema object (part 'kt': the same BFS over that lean vocabulary from the empty "
             "text).  LOAD HISTORY (part 'hist'): for such schemas every ORDERED PAIR (t1, t2) of the short "
             "texts {empty, one token at top level / in <sib> / in <cut>} is loaded t1-then-t2 on a freshly "
             "parsed schema object, and t1 on a freshly parsed EARLIER schema (key types of surroundings and "
             "container exchanged) followed by t2 on a fresh object of the schema itself; both verdicts of every "
             "pair are compared with the reference, which knows no history.",
        bounds={"schemas": len(fam), "max_items": 2 if tier == "quick" else 3, "depth": sorted(set(m[5] for m in fam)),
                "menu": "full" if tier != "quick" else "reduced",
                "keytype_mix": {
                    "schemas": n_kt,
                    "key_type_alphabet": ["(none)"] + list(KT_NAMES),
                    "assignments": "(schema = sib, cut): 16 ordered pairs" if tier == "quick"
                                   else "(schema, sib, cut): all 64 triples",
                    "contents_of_cut": [list(l) for l in kt_contents(tier)],
                    "key_tokens": list(KT_TOKENS),
                    "depth": sorted(set(m[3] for m in ktfam if m[0] == "kt")),
                    "history_pairs": {"schemas": len(ktfam) - n_kt, "texts": len(hist_texts()),
                                      "ordered_pairs_per_schema_and_mode": len(hist_texts()) ** 2,
                                      "modes": ["same-object", "earlier-schema"]}}},
        assumptions=["reference conformance predicate vz/ref/match.py (written from the statement)",
                     "unspecified regions u1-u3 (order-dependent slot search) are not compared",
                     "merging on the open-matcher state is sound: the parser and matchers consult nothing else",
                     "conformance is a function of (schema, text) alone: whatever the process, the schema object or "
                     "an earlier load has seen before must not change a verdict (the reference is history-free)"])
    core.pmap(shard, fam + ktfam, run.acc, shard_budget=1800.0)
    a = run.acc
    need = ["accepted", "key-not-declared", "single-key-filled-twice", "single-slot-filled-twice",
            "section-name-reused", "unknown-type", "abstract-type-named-directly", "no-slot-admits-type",
            "name-rule", "name-rule-literal-star-plus", "required-key-missing", "required-section-missing",
            "required-multisection-empty", "required-multikey-empty", "required-wildcard-map-empty",
            "value-unconvertible", "key-normalisation-fails", "single-wildcard-key-filled-twice"]
    missing = [c for c in need if not a.clauses.get(c)]
    run.require(not missing, "reference clauses that never decided a case: %s" % missing)
    run.require(a.classes.get("ref=A impl=A", 0) > 100 and a.classes.get("ref=R impl=R", 0) > 100,
                "too few accepted / rejected cases")
    # wave 5: the key-type mix and the load-history axis were really exercised
    classes = set(kt_membership(t) for t in KT_TOKENS)
    run.require(len(classes) == 8, "key tokens realise only %d of the 8 membership classes" % len(classes))
    x = a.extra
    run.require(x["kt_schemas"] == n_kt and x["kt_schemas_mixing_key_types"] >= n_kt // 2
                and x["kt_schemas_with_implicit_key_type"] >= n_kt // 4,
                "key-type mix family not explored as declared: %s" % {k: v for k, v in x.items() if k.startswith("kt_s")})
    run.require(x["kt_refused_here_accepted_by_other_key_type_of_schema"] > 1000
                and x["kt_accepted_here_refused_by_other_key_types_of_schema"] > 1000
                and x["kt_normal_form_differs_between_key_types_of_schema"] > 500
                and x["kt_refused_here_after_use_in_same_text_under_accepting_key_type"] > 200,
                "too few key lines whose spelling discriminates the key types of one schema: %s"
                % {k: v for k, v in x.items() if k.startswith("kt_") and not k.startswith("kt_s")})
    run.require(x["hist_schemas"] == len(ktfam) - n_kt
                and x["hist_pairs"] == 2 * (len(ktfam) - n_kt) * len(hist_texts()) ** 2
                and x["hist_pairs_spelling_refused_now_accepted_by_key_type_of_first_load"] > 100,
                "load-history pairs not explored as declared: %s" % {k: v for k, v in x.items() if k.startswith("hist")})
    run.notes["merge_ratio"] = round(a.transitions / max(1, a.states), 1)
    return run


def replay_kt(case):
    m = case["member"]
    kts = tuple(m["kts"])
    S = kt_build(tuple(m["label"]), kts)
    assert M.render(S) == m["schema"], "schema of the replay file cannot be rebuilt"
    hist = tuple(tuple(e) for e in case["events"])
    rc = 0
    for _ in range(2):
        acc = core.Acc()
        if m["part"] == "kt":
            sch = H.load_schema(m["schema"])
            prev = case.get("previous_text_on_this_schema_object")
            if prev is not None:
                print("previous text on the same schema object:\n" + prev)
                print("  ->", H.load(sch, prev)[0])
            check_case(S, sch, hist, case["text"], acc, m, tags={"part": "kt"})
            obs = H.load(sch, case["text"])
            print("text:\n" + case["text"])
            print("observed:", obs[0], repr(obs[1])[:200])
            print("reference:", R.decide(S, hist).verdict, R.decide(S, hist).clause)
        else:
            h1 = tuple(tuple(e) for e in case["first_events"])
            S0 = kt_build(tuple(m["label"]), hist_other(kts))
            print("mode:", case["mode"], "\nfirst text:\n" + case["first_text"] + "second text:\n" + case["text"])
            hist_pair(S, m["schema"], S0, M.render(S0), case["mode"], h1, hist, acc, m)
            print("reference (first, second):", R.decide(S if case["mode"] == "same-object" else S0, h1).verdict,
                  R.decide(S, hist).verdict)
        for v in acc.violations.values():
            print("REPLAY violation:", v["kind"], v["observed"], "expected", v["expected"], v["tags"])
            rc = 1
    return rc


def replay(body):
    case = body["case"]
    m = case["member"]
    if m.get("part") in ("kt", "hist"):
        return replay_kt(case)
    member = (tuple(m["label"]), M.items_from_labels(m["label"]), m["placement"], m["keytype"], m["env"], m["depth"])
    S, root = build(member)
    assert M.render(S) == m["schema"], "schema of the replay file cannot be rebuilt"
    hist = tuple(tuple(e) for e in case["events"])
    rc = 0
    for _ in range(2):
        acc = core.Acc()
        sch = H.load_schema(m["schema"])
        check_case(S, sch, hist, case["text"], acc, m)
        obs = H.load(sch, case["text"])
        print("text:\n" + case["text"])
        print("observed:", obs[0], repr(obs[1])[:200])
        print("reference:", R.decide(S, hist).verdict, R.decide(S, hist).clause)
        for v in acc.violations.values():
            print("REPLAY violation:", v["kind"])
            rc = 1
    return rc
