"""C05 - %define names form one case-insensitive, define-before-use, write-once namespace.

Engine E2: breadth-first search over histories of {%define n v, use n, enter an
%include-d resource, return from it}; a state is (defines mapping, include
depth) of the reference model, validated against the implementation at every new
state by probing each name; every transition's text is loaded twice in a row
against the same schema object and compared with the reference DefineSpace.
"""
from vz import core
from vz.harness import load as H
from vz.ref import subst as RS

SCHEMA = "<schema>\n  <multikey name='u'/>\n</schema>\n"
NAMES = ["a", "b", "ab"]
SPELL = {"a": ["a", "A"], "b": ["B", "b"], "ab": ["Ab", "aB"]}
MAIN = "file:///v/main.conf"


def alphabet(tier):
    evs = []
    for n in NAMES:
        others = [m for m in NAMES if m != n]
        vals = ["lit", "", " padded "]
        for o in others:
            vals += ["$" + SPELL[o][1], "$$" + o, "${" + SPELL[o][0] + "}x"]
        if tier != "quick":
            vals += ["$" + n, "lit$$"]
        for sp in SPELL[n]:
            for v in vals:
                evs.append(("def", sp, v))
    evs.append(("def", "a-b", "lit"))
    evs.append(("def", "1a", "lit"))
    for n in NAMES:
        for sp in SPELL[n]:
            evs.append(("use", sp))
    evs.append(("use{}", "A"))
    evs.append(("push",))
    evs.append(("pop",))
    return evs


def build_files(hist):
    """history -> dict url -> text ; includes are written relative to the includer."""
    files = {MAIN: []}
    stack = [MAIN]
    count = 0
    for ev in hist:
        cur = files[stack[-1]]
        if ev[0] == "def":
            cur.append(("%define " + ev[1] + " " + ev[2]).rstrip() if ev[2] == "" else "%define " + ev[1] + " " + ev[2])
        elif ev[0] == "use":
            cur.append("u $" + ev[1])
        elif ev[0] == "use{}":
            cur.append("u ${" + ev[1] + "}-")
        elif ev[0] == "push":
            count += 1
            name = "inc%d.conf" % count
            sub = "sub/" if len(stack) == 1 else ""
            url = stack[-1].rsplit("/", 1)[0] + "/" + sub + name
            cur.append("%include " + sub + name)
            files[url] = []
            stack.append(url)
        elif ev[0] == "pop":
            stack.pop()
    return {u: "\n".join(l) + ("\n" if l else "") for u, l in files.items()}


def reference(hist):
    """-> (outcome, DefineSpace, depth, alive).  outcome: ('ok', [values of u]) |
    ('syntax',) | ('missing', lname) | ('unspec',)"""
    ds = RS.DefineSpace()
    depth = 0
    uses = []
    for ev in hist:
        if ev[0] == "def":
            raw = ev[2].strip()
            r = ds.define(ev[1], raw)
            if r == "ok":
                continue
            if r == "unspec" or isinstance(r, list):
                return ("unspec",), ds, depth, False
            if r == "syntax":
                return ("syntax",), ds, depth, False
            if isinstance(r, tuple) and r[0] == "missing":
                return ("missing", r[1].lower()), ds, depth, False
            return ("unspec",), ds, depth, False
        elif ev[0] in ("use", "use{}"):
            txt = "$" + ev[1] if ev[0] == "use" else "${" + ev[1] + "}-"
            r = ds.expand(txt)
            if r[0] == RS.OK:
                uses.append(r[1])
            elif r[0] == RS.MISSING:
                return ("missing", r[1].lower()), ds, depth, False
            else:
                return ("unspec",), ds, depth, False
        elif ev[0] == "push":
            depth += 1
        elif ev[0] == "pop":
            depth -= 1
    return ("ok", uses), ds, depth, True


def observe(sch, files):
    import ZConfig
    r = H.load_mem(sch, files, MAIN)
    if r[0] == "ok":
        return ("ok", list(r[1].u))
    if r[0] == "rejected":
        e = r[1]
        if isinstance(e, ZConfig.SubstitutionReplacementError):
            return ("missing", e.name)
        if isinstance(e, ZConfig.ConfigurationSyntaxError):
            return ("syntax",)
        return ("other-config-error", type(e).__name__)
    return ("internal", core.exc_desc(r[1]))


def features(hist):
    """What kind of history this is (used in violation tags)."""
    f = set()
    seen = {}
    for ev in hist:
        if ev[0] == "def":
            ln = ev[1].lower()
            if ln in seen:
                f.add("redefinition")
                if "$" in ev[2] or "$" in seen[ln]:
                    f.add("redefinition-with-dollar")
            seen[ln] = ev[2]
        if ev[0] == "push":
            f.add("include")
    return sorted(f)


def check(sch, hist, acc):
    files = build_files(hist)
    exp, ds, depth, alive = reference(hist)
    acc.ev(2)
    case = {"history": [list(e) for e in hist], "files": files}
    o1 = observe(sch, files)
    o2 = observe(sch, files)
    nd = sum(1 for e in hist if e[0] == "def")
    nu = sum(1 for e in hist if e[0].startswith("use"))
    if nd >= 1 and (nu >= 1 or "redefinition" in features(hist)):
        acc.nt()
    acc.sample(lambda: dict(case, expected=list(exp)))
    acc.cls("ref=%s impl=%s" % (exp[0], o1[0]))
    if o1 != o2:
        acc.violation("second-load-differs", case, [o1, o2], "same outcome twice",
                      tags={"kind": "carry-over", "features": features(hist)})
        return False
    if exp[0] == "unspec":
        if o1[0] == "internal":
            acc.violation("internal-error", case, o1[1], "configuration error", tags={"kind": "internal-error"})
        return False
    if not agrees(o1, exp, hist):
        fs = features(hist)
        acc.violation("define-namespace-outcome", case, list(o1), list(exp),
                      tags={"kind": "define-namespace", "expected": exp[0], "observed": o1[0],
                            "redefinition_with_dollar": "redefinition-with-dollar" in fs})
        return False
    return alive


def agrees(obs, exp, hist):
    """ok: same values.  A use of an undefined name must be the replacement error
    carrying that name (letter case of .name is C04's subject).  A refused
    %define is 'rejected as a syntax error': the replacement error is a
    ConfigurationSyntaxError too, and which of two causes is reported is open."""
    if exp[0] == "ok":
        return list(obs) == list(exp)
    last = hist[-1][0] if hist else None
    fail_at_def = False
    # find the event at which the reference stopped
    for i in range(1, len(hist) + 1):
        if reference(hist[:i])[0][0] != "ok":
            fail_at_def = hist[i - 1][0] == "def"
            break
    if fail_at_def:
        return obs[0] in ("syntax", "missing")
    if exp[0] == "missing":
        return obs[0] == "missing" and str(obs[1]).lower() == exp[1]
    return obs[0] == exp[0]


def probe_state(sch, hist, ds, acc):
    """Validate the merge key against the implementation: each name resolves (or
    fails to) in the implementation exactly as the reference state says."""
    for n in NAMES:
        h2 = hist + (("use", n),)
        exp = reference(h2)[0]
        got = observe(sch, build_files(h2))
        acc.ev()
        acc.extra["state_probes"] += 1
        if exp[0] == "ok" and got[0] == "ok":
            if exp[1][-1:] != got[1][-1:]:
                acc.violation("state-probe-differs", {"history": [list(e) for e in h2]}, got, exp,
                              tags={"kind": "state-probe"})
                return False
        elif exp[0] != got[0]:
            acc.violation("state-probe-differs", {"history": [list(e) for e in h2]}, got, exp,
                          tags={"kind": "state-probe"})
            return False
    return True


def shard(arg, acc):
    first, depth, tier = arg
    sch = H.load_schema(SCHEMA)
    A = alphabet(tier)
    root = (first,)
    if first[0] == "pop":
        return acc
    if not check(sch, root, acc):
        acc.transitions += 1
        return acc
    acc.transitions += 1
    seen = set()
    exp, ds, d0, alive = reference(root)
    seen.add((tuple(sorted(ds.defs.items())), d0))
    frontier = [root]
    for level in range(1, depth):
        nxt = []
        for hist in frontier:
            _, ds0, dep, _ = reference(hist)
            for ev in A:
                if ev[0] == "pop" and dep == 0:
                    continue
                if ev[0] == "push" and dep >= 2:
                    continue
                h2 = hist + (ev,)
                acc.current = h2
                alive = check(sch, h2, acc)
                acc.transitions += 1
                if alive and level + 1 < depth:
                    _, ds2, dep2, _ = reference(h2)
                    key = (tuple(sorted(ds2.defs.items())), dep2)
                    if key not in seen:
                        seen.add(key)
                        if probe_state(sch, h2, ds2, acc):
                            nxt.append(h2)
        frontier = nxt
    acc.states += len(seen)
    acc.traces = acc.transitions
    return acc


def run(tier):
    depth = 4 if tier == "quick" else 6
    A = alphabet(tier)
    run = core.Run(
        "C05", tier, "model_checking",
        rule="breadth-first search over histories of up to %d steps from an alphabet of %d events (%%define of 3 "
             "names in 2 spellings each x literal / empty / padded / $other / $$other / ${other}x values, 2 illegal "
             "names, uses of every spelling, enter / leave an %%include-d resource to depth 2); state = (defines "
             "mapping of the reference model, include depth), each new state validated against the implementation "
             "by probing every name; every transition's files are loaded twice against one schema object and "
             "compared with the reference DefineSpace.  Non-trivial = history with >= 1 define and >= 1 use or "
             "redefinition.  Search trees are rooted at each first event (shards), so histories are distinct."
             % (depth, len(A)),
        bounds={"depth": depth, "alphabet": len(A), "include_depth": 2},
        assumptions=["reference DefineSpace vz/ref/subst.py", "resources served in memory through the public "
                     "openResource override; relative include resolution is C06's subject"])
    core.pmap(shard, [(ev, depth, tier) for ev in A], run.acc, shard_budget=3000.0)
    a = run.acc
    run.require(a.classes.get("ref=ok impl=ok", 0) > 500, "few accepted histories")
    run.require(a.classes.get("ref=syntax impl=syntax", 0) > 100, "few refused redefinitions")
    run.require(a.classes.get("ref=missing impl=missing", 0) > 100, "few undefined uses")
    return run


def replay(body):
    case = body["case"]
    sch = H.load_schema(SCHEMA)
    hist = tuple(tuple(e) for e in case["history"])
    rc = 0
    for _ in range(2):
        files = build_files(hist)
        for u, t in files.items():
            print("--- %s\n%s" % (u, t), end="")
        got = observe(sch, files)
        exp = reference(hist)[0]
        print("observed:", got, " reference:", exp)
        if exp[0] != "unspec" and not agrees(got, exp, hist):
            rc = 1
    return rc
