"""C14 - command-line overrides act like editing the addressed keys in the text.

Engine E3 (deviation-bounded): seeds are the accepted texts of corpus T that hold
at least one section; for each seed a specifier alphabet is derived from its
section tree and the schema model (existing / absent / disallowed / wildcard
keys, by section name / by type / in mixed case, at every depth, convertible /
unconvertible / empty / '$'-holding values, absent sections, malformed
specifiers); ALL lists of <= n specifiers are tried.  Oracle: differential -
loadConfigFile(S, T, overrides=L) vs loadConfigFile(S, edit(T, L)) where edit()
is computed on the event tree by the rule in the statement - cross-checked with
the reference conformance model on the edited text.

Wave 5 adds the axis HOW A CONTAINER IS FINISHED: every schema of the family is explored in several
variants (VARIANTS below) that differ in what happens when a container - the <schema> element, every
section type - has collected its values: its datatype (none / a distinguishable wrapper / an identity-
returning datatype that refuses a marked value) and the handlers registered for the schema and for every
item.  The observed outcome of a load is the PAIR loadConfigFile returns: the value tree and what the
handler object delivers (its length, the sequence of names, each delivered value).
"""
import itertools
from dataclasses import replace

from vz import core
from vz.gen import corpus as C
from vz.gen import schema as M
from vz.harness import c14dt
from vz.harness import load as H
from vz.ref import match as R

# ---------------------------------------------------------------------------
# axis "how a container is finished" (wave 5)

DT_SCHEMA, DT_SECTIONS = "datatype-on-schema", "datatype-on-every-sectiontype"
H_SCHEMA, H_ITEMS = "handler-on-schema", "handler-on-every-item"
RF_SCHEMA, RF_SECTIONS = "refusing-datatype-on-schema", "refusing-datatype-on-every-sectiontype"
REFUSING = frozenset((RF_SCHEMA, RF_SECTIONS))
REFUSE_DT = "vz.harness.c14dt.refuse_marked"
WRAPS = (M.SECT_DT_WRAP, M.SECT_DT_WRAP2)

# (name, flags, program): "full" = every seed, singles + loader re-use + pairs + same-target groups (thorough:
# triples, quadruples); "reduced" = every STRIDE-th seed, singles + loader re-use + same-target groups
# (thorough: + pairs)
_V = lambda name, prog, *flags: (name, frozenset(flags), prog)
VARIANTS_QUICK = (
    _V("converted+handled-everywhere", "full", DT_SCHEMA, DT_SECTIONS, H_SCHEMA, H_ITEMS),
    _V("plain", "reduced"),
    _V("datatypes", "reduced", DT_SCHEMA, DT_SECTIONS),
    _V("handlers", "reduced", H_SCHEMA, H_ITEMS),
    _V("refusing-datatypes", "reduced", RF_SCHEMA, RF_SECTIONS),
)
VARIANTS_THOROUGH = VARIANTS_QUICK + (
    _V("datatype-on-schema-only", "reduced", DT_SCHEMA),
    _V("datatype-on-sectiontypes-only", "reduced", DT_SECTIONS),
    _V("handler-on-schema-only", "reduced", H_SCHEMA),
    _V("handlers-on-items-only", "reduced", H_ITEMS),
    _V("refusing-datatype-on-schema-only", "reduced", RF_SCHEMA),
    _V("refusing-datatype-on-sectiontypes-only", "reduced", RF_SECTIONS),
    _V("refusing-datatypes+handlers", "reduced", RF_SCHEMA, RF_SECTIONS, H_SCHEMA, H_ITEMS),
    _V("schema-converted+handled,sections-plain", "reduced", DT_SCHEMA, H_SCHEMA),
)
STRIDE = {"quick": 4, "thorough": 5}


def variants(tier):
    return VARIANTS_QUICK if tier == "quick" else VARIANTS_THOROUGH


def decorate(S, flags, refuse_dt=REFUSE_DT):
    """The schema S with the finishing steps of `flags` added wherever S itself says nothing: two
    distinguishable wrapping datatypes alternate over the section types (which type's datatype was applied
    is visible), every item of every container gets a handler name of its own (mixed case)."""
    types, n = [], 0
    for t in S.types:
        if isinstance(t, M.SType):
            items = t.items
            if H_ITEMS in flags:
                items = tuple(replace(it, handler=it.handler or "H_%s_%d" % (t.name, i)) for i, it in enumerate(items))
            dt = t.datatype
            if dt is None and DT_SECTIONS in flags:
                dt = WRAPS[n % 2]
            if dt is None and RF_SECTIONS in flags:
                dt = refuse_dt
            n += 1
            t = replace(t, items=items, datatype=dt)
        types.append(t)
    items = S.items
    if H_ITEMS in flags:
        items = tuple(replace(it, handler=it.handler or "H_top_%d" % i) for i, it in enumerate(items))
    dt, h = S.datatype, S.handler
    if dt is None and DT_SCHEMA in flags:
        dt = M.SECT_DT_WRAP
    if dt is None and RF_SCHEMA in flags:
        dt = refuse_dt
    if h is None and H_SCHEMA in flags:
        h = "H_Schema"
    return replace(S, types=tuple(types), items=items, datatype=dt, handler=h)


def handler_names(S):
    out = set()
    for cont in (S,) + tuple(t for t in S.types if isinstance(t, M.SType)):
        for it in cont.items:
            if it.handler:
                out.add(R.kt_basic_key(it.handler))
    if S.handler:
        out.add(R.kt_basic_key(S.handler))
    return sorted(out)


class Ctx:
    """One (schema, variant) under exploration."""

    def __init__(self, name, S0, vname, flags, program):
        self.variant, self.flags, self.full = vname, flags, program == "full"
        self.S = decorate(S0, flags)
        # the reference model knows the wrapping datatypes and the handlers; for the refusing datatype it is
        # asked about the same schema with 'null' in its place (a refusal only turns acceptance into rejection)
        self.Sref = decorate(S0, flags, refuse_dt="null")
        self.ref_partial = bool(flags & REFUSING)
        self.xml = M.render(self.S)
        self.sch = H.load_schema(self.xml)
        self.names = handler_names(self.S)
        self.mid = {"name": name, "variant": vname, "schema": self.xml, "handlers": self.names}
        self.prev_text = None


class Node:
    def __init__(self, type_, name):
        self.type = type_
        self.name = name
        self.children = []      # ('k', key, value) tuples and Node objects
        self.over = []          # [(key, value)] overrides addressed to this container


def to_tree(events):
    top = Node(None, None)
    st = [top]
    for ev in events:
        if ev[0] == "k":
            st[-1].children.append(ev)
        elif ev[0] in ("o", "e"):
            n = Node(ev[1], ev[2])
            st[-1].children.append(n)
            if ev[0] == "o":
                st.append(n)
        elif ev[0] == "c":
            st.pop()
    return top


def to_events(node, out=None, top=True):
    out = [] if out is None else out
    for ch in node.children:
        if isinstance(ch, Node):
            out.append(("o", ch.type, ch.name))
            to_events(ch, out, False)
            out.append(("c",))
        else:
            out.append(ch)
    return out


class MustReject(Exception):
    pass


def parse_spec(spec):
    """-> (components, value) or raises MustReject for specifiers that must be
    refused when they are added."""
    if "=" not in spec:
        raise MustReject("no-equals")
    path, val = spec.split("=", 1)
    comps = path.split("/")
    if "" in comps:
        raise MustReject("empty-component")
    return comps, val


def edit(S, events, specs):
    """The statement's rule, on the event tree.  Returns the edited event list;
    raises MustReject where the statement says the load is rejected."""
    top = to_tree(events)
    for spec in specs:
        comps, val = parse_spec(spec)
        node = top
        for comp in comps[:-1]:
            bk = R.kt_basic_key(comp)
            hit = None
            for ch in node.children:
                if isinstance(ch, Node):
                    if (ch.name and comp.lower() == ch.name.lower()) or (bk is not None and bk == ch.type.lower()):
                        hit = ch
                        break
            if hit is None:
                raise MustReject("section-not-present")
            node = hit
        node.over.append((comps[-1], val))

    def apply(node):
        kt = R.KEYTYPES[M.eff_keytype(S, node.type.lower() if node.type else None)]
        if node.over:
            norm = []
            for k, v in node.over:
                nk = kt(k)
                if nk is None:
                    raise MustReject("key-refused-by-keytype")
                norm.append(nk)
            kept = []
            for ch in node.children:
                if not isinstance(ch, Node) and kt(ch[1]) in norm:
                    continue
                kept.append(ch)
            for k, v in node.over:
                kept.append(("k", k, v.replace("$", "$$")))
            node.children = kept
        for ch in node.children:
            if isinstance(ch, Node):
                apply(ch)
    apply(top)
    return to_events(top)


def spec_alphabet(S, events):
    """Specifiers derived from the seed's section tree and the schema model."""
    top = to_tree(events)
    specs = []
    paths = [((), top)]

    def walk(node, prefix, depth):
        seen_first = set()
        for ch in node.children:
            if isinstance(ch, Node):
                variants = []
                if ch.name:
                    variants += [ch.name, ch.name.upper()]
                variants += [ch.type, ch.type.upper()]
                for v in variants:
                    paths.append((prefix + (v,), ch))
                if depth < 3:
                    walk(ch, prefix + (ch.name or ch.type,), depth + 1)
    walk(top, (), 1)
    for prefix, node in paths:
        tname = node.type.lower() if node.type else None
        if tname is not None and tname not in M.type_table(S):
            continue
        items = M.eff_items(S, tname)
        declared = [(it.name, it.datatype) for it in items if isinstance(it, (M.Key, M.MultiKey)) and it.name != "+"]
        wild = [it for it in items if M.is_wild(it)]
        keys = []
        for nm, dt in declared:
            toks = M.VALUE_TOKENS[dt]
            vals = [toks[0], ""]
            bad = [t for t in toks if R.convert(dt, t) is R.BAD]
            if bad:
                vals.append(bad[0])
            if dt == "string":
                # every metacharacter of the specifier syntax inside the VALUE ("verbatim"): '$', '=', '/'
                # ('p=q' is also the value the refusing container datatype of the wave-5 variants looks for)
                vals += ["a$b", "p=q", "$$x", "p/q", "/r/s", "u/v=w"]
            if nm == "lk" and "x" not in vals:
                # the extra token the corpus vocabulary has for 'lk': what the family's own refusing section
                # datatype (vz.harness.dt.reject_lk_x, schema rich2) looks for
                vals.append("x")
            for v in vals:
                keys.append((nm, v))
            keys.append((nm.upper(), toks[0]))
        keys.append(("qq", "v"))
        if wild:
            keys.append(("zz", M.VALUE_TOKENS[wild[0].datatype][0]))
        keys.append(("1x", "v"))
        for k, v in keys:
            specs.append("/".join(prefix + (k,)) + "=" + v)
    specs.append("nosuch/k1=v")
    specs.append("1/k1=v")
    first = [p for p, n in paths if p]
    if first:
        specs.append("/".join(first[0]) + "/nosuch/k1=v")
        specs.append("/".join(first[0]) + "//k1=v")
    specs += ["k1", "/k1=v", "=v"]
    out = []
    for s in specs:
        if s not in out:
            out.append(s)
    return out


def same_target_groups(S, events, specs):
    """Groups of specifiers (distinct values) addressing one key of one section node through
    different path spellings."""
    top = to_tree(events)
    groups = {}
    for sp in specs:
        try:
            comps, val = parse_spec(sp)
        except MustReject:
            continue
        if len(comps) < 2 or val == "":
            continue
        node = top
        ok = True
        for comp in comps[:-1]:
            bk = R.kt_basic_key(comp)
            hit = None
            for ch in node.children:
                if isinstance(ch, Node) and ((ch.name and comp.lower() == ch.name.lower()) or
                                             (bk is not None and bk == ch.type.lower())):
                    hit = ch
                    break
            if hit is None:
                ok = False
                break
            node = hit
        if ok:
            groups.setdefault((id(node), comps[-1].lower()), []).append((tuple(comps[:-1]), sp))
    out = []
    for (_, key), members in groups.items():
        # one specifier per distinct path spelling, each with its own value so that order is observable
        seen, g = set(), []
        for i, (path, sp) in enumerate(members):
            if path in seen:
                continue
            seen.add(path)
            g.append(sp.split("=", 1)[0] + "=" + ("%d" % (i + 1) if sp.split("=", 1)[1].isdigit() else "val%d" % (i + 1)))
        if len(g) >= 2:
            out.append(g[:5])
    return out[:6]


def delivered(cfg, cfg_tree, handler, names):
    """What the handler object returned with a configuration delivers when every handler name of the schema is
    mapped to a recorder: (len(handler), ((name, value tree), ...)) in calling order."""
    calls = []

    def rec(nm):
        def cb(value):
            calls.append((nm, cfg_tree if value is cfg else H.tree(value)))
        return cb
    try:
        n = len(handler)
        handler({nm: rec(nm) for nm in names})
    except Exception as e:
        return ("handler-object-raises", type(e).__name__, str(e)[:160])
    return (n, tuple(calls))


def outcome(obs, names=()):
    """-> ('tree', (value tree, delivered handler entries)) | ('rejected', error class) |
    ('refused', message): the refusing datatype of the <schema> element raised (ZConfig lets the ValueError of
    a schema-level datatype through as it is; sections' are reported as DataConversionError -> 'rejected') |
    ('internal', description)"""
    if obs[0] == "ok":
        t = H.tree(obs[1])
        return ("tree", (t, delivered(obs[1], t, obs[2], names)))
    if obs[0] == "rejected":
        return ("rejected", type(obs[1]).__name__)
    if isinstance(obs[1], c14dt.Refused):
        return ("refused", str(obs[1]))
    return ("internal", core.exc_desc(obs[1]))


def show(o):
    if o[0] == "tree":
        return [o[0], repr(o[1][0])[:300], "handler entries: " + repr(o[1][1])[:400]]
    return [o[0], repr(o[1])[:300]]


def what_differs(a, b):
    if a[0] != b[0]:
        return "verdict"
    if a[0] != "tree":
        return "none"
    t, h = a[1][0] != b[1][0], a[1][1] != b[1][1]
    return "value-tree+handler-entries" if t and h else "value-tree" if t else "handler-entries" if h else "none"


def load_twice_on_one_loader(sch, text, specs, text2):
    """One ExtendedConfigLoader object carrying the overrides serves two loads (text, then text2).
    -> [result of load 1, result of load 2], or None when a specifier is refused."""
    import io
    import ZConfig
    import ZConfig.cmdline
    ld = ZConfig.cmdline.ExtendedConfigLoader(sch)
    try:
        for sp in specs:
            ld.addOption(sp)
    except ZConfig.ConfigurationError as e:
        return None
    except Exception as e:
        return None
    out = []
    for t in (text, text2):
        try:
            cfg, h = ld.loadFile(io.StringIO(t), H.URL)
            out.append(("ok", cfg, h))
        except ZConfig.ConfigurationError as e:
            out.append(("rejected", e, None))
        except Exception as e:
            out.append(("internal", e, None))
    return out


def check_reload(cx, text, specs, text2, acc, want2):
    """The same override list must act on EVERY load made through the loader that carries it.
    want2 = outcome of loadConfigFile(text2, overrides=specs), i.e. of a fresh loader (computed by check_list)."""
    sch = cx.sch
    r = load_twice_on_one_loader(sch, text, specs, text2)
    if r is None:
        return
    acc.ev()
    acc.transitions += 1
    acc.nt()
    first, second = outcome(r[0], cx.names), outcome(r[1], cx.names)
    # (the first load on a new loader is what loadConfigFile(..., overrides=) does: compared by check_list)
    acc.cls("reload:%s/%s" % (second[0], want2[0]))
    case = {"member": cx.mid, "text": text, "overrides": list(specs), "second_text": text2}
    if second != want2:
        acc.violation("second-load-on-same-loader-differs", case, show(second), show(want2),
                      tags={"kind": "loader-reuse", "step": 2, "first": first[0], "second": second[0],
                            "differs": what_differs(second, want2)})


def check_list(cx, events, text, specs, acc, resolved_any):
    import ZConfig
    S, sch, names = cx.S, cx.sch, cx.names
    acc.ev()
    acc.current = (cx.variant, text, specs)
    acc.extra["override-lists/variant:" + cx.variant] += 1
    case = {"member": cx.mid, "text": text, "overrides": list(specs)}
    obs = outcome(H.load(sch, text, overrides=list(specs)), names)
    try:
        edited = edit(S, events, specs)
        exp_reject = None
    except MustReject as e:
        edited = None
        exp_reject = str(e)
    if resolved_any:
        acc.nt()
    acc.sample(lambda: dict(case, edited=H.render_events(edited) if edited is not None else "must be rejected: " + exp_reject))
    if obs[0] == "internal":
        acc.cls("internal")
        acc.violation("internal-error", case, obs[1], "tree or configuration error",
                      tags={"kind": "internal-error", "exc": obs[1]["class"], "where": obs[1]["where"]})
        return obs
    _judge(cx, events, specs, acc, case, obs, edited, exp_reject)
    return obs


def _judge(cx, events, specs, acc, case, obs, edited, exp_reject):
    if exp_reject is not None:
        acc.cls("must-reject:" + exp_reject)
        if obs[0] != "rejected":
            acc.violation("override-accepted-but-must-be-rejected", case, obs[0], exp_reject,
                          tags={"kind": "must-reject", "why": exp_reject})
        elif exp_reject in ("no-equals", "empty-component") and obs[1] != "ConfigurationSyntaxError":
            acc.violation("malformed-specifier-wrong-error", case, obs[1], "ConfigurationSyntaxError",
                          tags={"kind": "malformed-specifier-error-class"})
        return
    etext = H.render_events(edited)
    exp = outcome(H.load(cx.sch, etext), cx.names)
    ref = R.decide(cx.Sref, edited)
    acc.cls("edit:%s override:%s" % (exp[0], obs[0]))
    if ref.verdict != "U" and not (cx.ref_partial and ref.verdict == "A"):
        want = "tree" if ref.verdict == "A" else "rejected"
        if exp[0] != want:
            acc.extra["edited_text_disagrees_with_reference(C01's)"] += 1
            return
    if exp[0] == "internal":
        return
    if obs[0] != exp[0] or (obs[0] == "tree" and obs[1] != exp[1]):
        acc.violation("override-differs-from-edited-text", dict(case, edited=etext), show(obs), show(exp),
                      tags={"kind": "differs", "override": obs[0], "edited": exp[0],
                            "differs": what_differs(obs, exp)})
        return
    # what the wave-5 axis contributed to this (agreeing) case
    if obs[0] == "tree":
        n = obs[1][1][0]
        if n >= 2:
            acc.extra["accepted-override-loads-delivering->=2-handler-entries"] += 1
        if cx.S.handler:
            acc.extra["accepted-override-loads-delivering-the-schema-handler"] += 1
        if obs[1][0][0] in ("W", "W2"):
            acc.extra["accepted-override-loads-whose-top-level-is-converted-by-the-schema-datatype"] += 1
        if cx.ref_partial:
            acc.extra["accepted-override-loads-passing-a-refusing-datatype"] += 1
    elif obs[0] == "refused":
        acc.extra["override-loads-refused-by-the-schema-datatype(as the edited text)"] += 1
    elif cx.ref_partial and ref.verdict == "A":
        acc.extra["override-loads-refused-by-a-section-datatype(as the edited text)"] += 1
    if len(specs) == 1 and exp[0] == "rejected" and exp[1] == "DataConversionError" and ref.clause == "value-unconvertible":
        if obs[1] != "DataConversionError":
            acc.violation("unconvertible-override-not-a-conversion-error", case, obs[1], "DataConversionError",
                          tags={"kind": "conversion-error-class"})


def explore_seed(cx, S1, events, text, specs, resolves, tier, nseeds, acc):
    """The override lists tried on one (schema variant, seed)."""
    acc.states += 1
    acc.extra["seeds/variant:" + cx.variant] += 1
    pair_alpha = 8 if tier == "quick" else 12
    fresh = {}
    for s in specs:
        fresh[s] = check_list(cx, events, text, (s,), acc, resolves[s])
        acc.transitions += 1
    # sub-alphabet chosen to interact: specifiers that resolve to a section, specifiers that do not, and one
    # acceptable override of the top-level key every schema holds
    top = [s for s in specs if is_top_key_spec(s)]
    sub = [s for s in specs if resolves[s]][:pair_alpha // 2] + \
          [s for s in specs if not resolves[s] and s not in top][:pair_alpha // 2] + top[:1]
    # one loader object, two loads: the same text again, and (full program; thorough: all) the previous seed of
    # this schema variant, then this one; the second load is compared with a fresh loader's (= the single-
    # specifier load above).  Full program: every specifier that resolves to a section or addresses a key of the
    # schema itself (the added top-level key: its first and its marked value); reduced program: the sub-alphabet
    # and the marked value of the top-level key
    marked = [s for s in top if s.split("=", 1)[1] == c14dt.MARK]
    if cx.full:
        again = [s for s in specs if (resolves[s] or "/" not in s.split("=", 1)[0]) and
                 (s not in top or s in top[:1] or s in marked)]
    else:
        again = [s for s in sub + marked if resolves[s] or "/" not in s.split("=", 1)[0]]
    for s in again:
        check_reload(cx, text, (s,), text, acc, fresh[s])
        if cx.prev_text is not None and (cx.full or tier != "quick"):
            check_reload(cx, cx.prev_text, (s,), text, acc, fresh[s])
    cx.prev_text = text
    if cx.full or tier != "quick":
        # pairs (and triples in the thorough tier)
        for a, b in itertools.product(sub, repeat=2):
            check_list(cx, events, text, (a, b), acc, resolves[a] or resolves[b])
            acc.transitions += 1
    # every pair / triple of specifiers that reach the SAME key of the SAME section through different
    # spellings of the path (by name, by type, upper case), with distinct values: order, dropping and
    # consumption interact exactly there
    for group in same_target_groups(S1, events, specs):
        for a, b in itertools.permutations(group, 2):
            check_list(cx, events, text, (a, b), acc, True)
            acc.transitions += 1
        if len(group) >= 3:
            for tr in itertools.permutations(group[:4], 3):
                check_list(cx, events, text, tr, acc, True)
                acc.transitions += 1
    if tier != "quick" and cx.full:
        sub3 = list(dict.fromkeys(sub[:4] + sub[-1:]))
        for tr in itertools.product(sub3, repeat=3):
            check_list(cx, events, text, tr, acc, any(resolves[x] for x in tr))
            acc.transitions += 1
        if nseeds <= 12:
            for q in itertools.product(sub3, repeat=4):
                check_list(cx, events, text, q, acc, any(resolves[x] for x in q))
                acc.transitions += 1


TOP_KEY = M.Key("tk", default="td")


def with_top_key(S0):
    """Every schema also holds a plain top-level key (with a default, so every corpus text stays acceptable):
    each seed then offers overrides of a top-level key - absent from the text - next to those of its sections."""
    return replace(S0, items=tuple(S0.items) + (TOP_KEY,))


def is_top_key_spec(spec):
    return spec.split("=", 1)[0].lower() == TOP_KEY.name


def shard(member, acc):
    name, S0, root, depth, lean, tier = member
    S1 = with_top_key(S0)
    ctxs = [Ctx(name, S1, vn, fl, pr) for vn, fl, pr in variants(tier)]
    nseeds = 0
    maxseeds = 40 if tier == "quick" else 100
    stride = STRIDE[tier]
    for events, d in C.nodes(S0, root, depth, lean):
        if d.verdict != "A" or not any(e[0] in ("o", "e") for e in events):
            continue
        if len(events) < 2:
            continue
        if nseeds >= maxseeds:
            acc.extra["seeds_beyond_bound_not_used"] += 1
            continue
        text = H.render_events(events)
        # a seed is a text every variant of the schema accepts (no corpus text holds the marker of the
        # refusing datatype; the other variants do not change what is accepted)
        if any(H.load(cx.sch, text)[0] != "ok" for cx in ctxs):
            acc.extra["seed_disagreements"] += 1
            continue
        nseeds += 1
        specs = spec_alphabet(S1, events)
        resolves = {}
        for s in specs:
            try:
                comps, _ = parse_spec(s)
                edit(S1, events, [s])
                resolves[s] = len(comps) > 1
            except MustReject:
                resolves[s] = False
        for cx in ctxs:
            if cx.full or (nseeds - 1) % stride == 0:
                explore_seed(cx, S1, events, text, specs, resolves, tier, nseeds, acc)
    acc.traces = acc.transitions
    return acc


def mixed_keytype_members(tier):
    """Containers whose key type differs from the schema's (and from the intermediate section's): the key of a
    specifier must be normalised by the key type of the section it ADDRESSES."""
    out = []
    env = M.type_env()
    for lab, items in M.selections(1, full=(tier != "quick")):
        if not items or isinstance(items[0], M.Sect):
            continue
        for p in (1, 2):
            for skt, ckt in ((None, "identifier"), ("identifier", None), ("identifier", "vz.harness.dt.lower_key")):
                S, root = M.place(items, p, env, cut_keytype=ckt, schema_keytype=skt)
                out.append(("+".join(lab) + "@%d[schema:%s,cut:%s]" % (p, skt, ckt), S, tuple(root), 3, False))
    return out


def run(tier):
    # both tiers use the quick schema family (the full two-item family x 150 seeds x triples is > 5 CPU-hours);
    # the thorough tier goes deeper per schema: more seeds, triples, quadruples, more finishing variants
    base = C.members("quick")
    mem = [m + (tier,) for m in base] + [m + (tier,) for m in mixed_keytype_members(tier)]
    vs = variants(tier)
    run = core.Run(
        "C14", tier, "model_checking",
        rule="seeds = accepted texts of corpus T (reference BFS over the schema family, two rich schemas, and every key-like "
             "item one / two levels down under a key type that differs from the schema's: basic-key vs identifier vs a "
             "custom lower-casing key type) with "
             ">= 1 section, at most %s per schema; every schema additionally holds a plain top-level key 'tk' with a default "
             "(no text mentions it: 'a top-level key absent from T can be supplied the same way' on every seed); "
             "per seed a specifier alphabet derived from its section tree "
             "(every section by name / type / upper case to depth 3 x declared, absent, unknown, wildcard and "
             "key-type-refused keys x convertible / empty / unconvertible / '$' / '=' values and the value a refusing "
             "container datatype looks for, absent sections, "
             "malformed specifiers); all single specifiers, all ordered pairs over an interacting sub-alphabet "
             "(4 that resolve to a section, 4 that do not, 1 acceptable override of the top-level key; "
             "thorough: triples, quadruples on the first seeds); every single specifier that resolves to a section or "
             "addresses a key of the schema itself (of 'tk': the first and the marked value) also on ONE loader object "
             "serving two loads (the same text again; the previous seed of the schema, then this one), the second "
             "load compared with a fresh loader's.  "
             "Axis HOW A CONTAINER IS FINISHED (wave 5): every schema is explored in the variants listed in "
             "bounds.finishing_variants - what is done when a container has collected its values: the <schema> element / "
             "every section type carrying no datatype, a wrapping datatype (two distinguishable ones alternate over the "
             "section types), or an identity-returning datatype that refuses a container holding the marked value 'p=q' "
             "(which only overrides supply); the <schema> element / every item of every container carrying a handler or "
             "not.  The OUTCOME compared between the override load and the load of the edited text (and between the two "
             "loads of one loader) is the pair loadConfigFile returns: the value tree AND what the handler object delivers "
             "when every handler name is mapped to a recorder (its len, the sequence of names, each value's tree); a "
             "refusal by the schema-level datatype (ZConfig lets its ValueError through) must occur on both sides.  "
             "The variant with datatypes and handlers everywhere runs the full program on every seed; the other variants "
             "run all single specifiers, the same-target groups%s and the loader re-use (same text again%s) over the "
             "pair sub-alphabet and the marked top-level value, on every %s seed "
             "(seed numbers 1, 1+k, 1+2k, ... in BFS order).  "
             "states = (schema variant, seed) pairs, transitions = override lists "
             "loaded.  Non-trivial = list with >= 1 specifier that resolves to an existing section."
             % ("40" if tier == "quick" else "100", "" if tier == "quick" else ", the pairs",
                "" if tier == "quick" else "; previous seed, then this one", "4th" if tier == "quick" else "5th"),
        bounds={"members": len(mem), "max_list": 2 if tier == "quick" else 4,
                "finishing_variants": {vn: {"adds": sorted(fl), "program": pr} for vn, fl, pr in vs},
                "reduced_program_seed_stride": STRIDE[tier],
                "thorough_family": "the quick schema family; 100 seeds per schema, triples over 5 specifiers, "
                                   "quadruples on the first 12 seeds of each schema (full-program variant); 13 finishing "
                                   "variants (each level alone, refusing + handlers), reduced program with pairs on every "
                                   "5th seed"},
        assumptions=["edit() in vz/props/c14.py implements the statement's rule on the event tree",
                     "override values restricted to strings the text syntax can express",
                     "'the same outcome' covers both members of the pair loadConfigFile returns (configuration, handler)",
                     "the reference model (cross-check only) is asked about the schema with 'null' in place of the refusing datatype"])
    core.pmap(shard, mem, run.acc, shard_budget=3000.0)
    a = run.acc
    run.require(a.classes.get("edit:tree override:tree", 0) > 200, "few accepted override loads")
    run.require(a.classes.get("edit:rejected override:rejected", 0) > 100, "few rejected override loads")
    run.require(a.classes.get("reload:tree/tree", 0) > 1000 and a.classes.get("reload:rejected/rejected", 0) > 100,
                "loader re-use hardly exercised")
    # wave 5: the finishing axis was really exercised
    for vn, fl, pr in vs:
        run.require(a.extra.get("override-lists/variant:" + vn, 0) > 20000,
                    "finishing variant %s: too few override lists" % vn)
    x = a.extra.get
    run.require(x("accepted-override-loads-delivering->=2-handler-entries", 0) > 50000,
                "too few accepted override loads whose handler object delivers >= 2 entries")
    run.require(x("accepted-override-loads-delivering-the-schema-handler", 0) > 50000,
                "too few accepted override loads under a schema-level handler")
    run.require(x("accepted-override-loads-whose-top-level-is-converted-by-the-schema-datatype", 0) > 50000,
                "too few accepted override loads whose top level is converted by the schema datatype")
    run.require(x("accepted-override-loads-passing-a-refusing-datatype", 0) > 5000,
                "too few accepted override loads under a refusing datatype")
    run.require(x("override-loads-refused-by-the-schema-datatype(as the edited text)", 0) > 1000 and
                a.classes.get("reload:refused/refused", 0) > 1000,
                "the schema-level datatype hardly ever refused an override load")
    run.require(x("override-loads-refused-by-a-section-datatype(as the edited text)", 0) > 500,
                "the section datatypes hardly ever refused an override load")
    return run


def replay(body):
    case = body["case"]
    names = case["member"].get("handlers", ())
    rc = 0
    for _ in range(2):
        sch = H.load_schema(case["member"]["schema"])
        obs = outcome(H.load(sch, case["text"], overrides=case["overrides"]), names)
        print("schema (variant %s):\n%s" % (case["member"].get("variant"), case["member"]["schema"]))
        print("text:\n" + case["text"] + "overrides:", case["overrides"])
        print("observed with overrides:", show(obs))
        if "second_text" in case:
            r = load_twice_on_one_loader(sch, case["text"], case["overrides"], case["second_text"])
            second = outcome(r[1], names)
            want2 = outcome(H.load(sch, case["second_text"], overrides=case["overrides"]), names)
            print("second load on the same loader:", show(second))
            print("same load on a fresh loader:   ", show(want2))
            rc = 1 if second != want2 else rc
        elif "edited" in case:
            exp = outcome(H.load(sch, case["edited"]), names)
            print("edited text:\n" + case["edited"] + "observed on edited text:", show(exp))
            if obs[0] != exp[0] or (obs[0] == "tree" and obs != exp):
                rc = 1
        else:
            print("expected:", body["expected"])
            if obs[0] != "rejected" or body["kind"] in ("malformed-specifier-wrong-error",
                                                        "unconvertible-override-not-a-conversion-error"):
                rc = 1 if (obs[0] != "rejected" or obs[1] != body["expected"]) else 0
    return rc
