#!/usr/bin/env python3
"""runmut.py [--suite] PATCH PROP [PROP...]

Applies PATCH (path, or name under /verif/mutants or /verif/seeded/<id>/patch.diff) to /repo,
runs ./check PROP (quick) for each PROP, always reverts.  With --suite also runs the
repository test suite in a scratch worktree under /dev/shm with the patch applied."""
import subprocess, sys, os, shutil, time
args = sys.argv[1:]
suite = False
if args[0] == "--suite":
    suite = True
    args = args[1:]
patch, props = args[0], args[1:]
cands = [patch, "/verif/mutants/%s.diff" % patch, "/verif/mutants/%s" % patch,
         "/verif/seeded/%s/patch.diff" % patch]
patch = next(p for p in cands if os.path.isfile(p))
tier = os.environ.get("VERIF_TIER", "quick")
def sh(*a, **k):
    return subprocess.run(a, capture_output=True, text=True, stdin=subprocess.DEVNULL, **k)
assert sh("git", "-C", "/repo", "status", "--porcelain", "--untracked-files=no").stdout.strip() == "", "repo dirty"
if suite:
    wt = "/dev/shm/mutwt-%d" % os.getpid()
    sh("git", "-C", "/repo", "worktree", "add", "--detach", wt, "HEAD")
    try:
        r = sh("git", "-C", wt, "apply", patch)
        assert r.returncode == 0, r.stderr
        env = dict(os.environ, PYTHONPATH=wt + "/src")
        r = sh("/venv/bin/python", "-m", "pytest", "-q", "-p", "no:cacheprovider", "--timeout=900",
               cwd=wt, env=env)
        tail = r.stdout.strip().splitlines()[-1] if r.stdout.strip() else r.stderr[-200:]
        failed = [l.split()[1] for l in r.stdout.splitlines() if l.startswith(("FAILED", "ERROR"))]
        failed = [f for f in failed if not f.endswith("test_validator.py::TestValidator::test_schema_only")]
        tail = ("SUITE-PASSES (only the baseline always-fail test fails) " if not failed else "SUITE-FAILS %s " % failed[:4]) + tail
        print("SUITE[%s]: rc=%d %s" % (os.path.basename(os.path.dirname(patch)) if patch.endswith('patch.diff') else os.path.basename(patch), r.returncode, tail))
    finally:
        sh("git", "-C", "/repo", "worktree", "remove", "--force", wt)
        shutil.rmtree(wt, ignore_errors=True)
r = sh("git", "-C", "/repo", "apply", patch)
assert r.returncode == 0, r.stderr
try:
    for p in props:
        t = time.time()
        r = sh("/verif/check", p, "--tier", tier, cwd="/verif")
        lines = r.stdout.strip().splitlines()
        v = [l for l in lines if l.startswith("VIOLATION")]
        print("CHECK %s on %s: rc=%d violations=%d (%.0fs)" % (p, os.path.basename(patch) if not patch.endswith('patch.diff') else patch.split('/')[-2], r.returncode, len(v), time.time() - t))
        for l in lines[:6]:
            print("   ", l[:300])
        if r.returncode not in (0, 1):
            print(r.stdout[-1500:], r.stderr[-1500:])
finally:
    subprocess.run(["git", "-C", "/repo", "checkout", "--", "."], check=True)
