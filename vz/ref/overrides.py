"""Reference model of command-line overrides on the EVENT TREE of a text (used by C16's loading-route axis).

Written from the statement of C14 ("loading text T with override specifiers 'path/to/key=value'
gives the same outcome as loading T edited by hand: in the section addressed by the path - each
component selecting the first child section, in file order, whose name or whose type it equals
after case normalisation - every line for that key is dropped and the override values are supplied
instead, in the order given"), never from ZConfig.cmdline.  Events as in vz.ref.match.
"""
from vz.gen import schema as M
from vz.ref import match as R


class Sec:
    __slots__ = ("type", "name", "children", "over")

    def __init__(self, type_, name):
        self.type = type_
        self.name = name
        self.children = []      # ('k', key, value) events and Sec objects, in file order
        self.over = []          # [(key, value)] overrides addressed to this container


class MustReject(Exception):
    pass


def section_tree(events):
    top = Sec(None, None)
    st = [top]
    for ev in events:
        if ev[0] == "k":
            st[-1].children.append(ev)
        elif ev[0] in ("o", "e"):
            n = Sec(ev[1], ev[2])
            st[-1].children.append(n)
            if ev[0] == "o":
                st.append(n)
        elif ev[0] == "c":
            st.pop()
        else:
            raise R.OutsideDomain(ev)
    return top


def resolve(node, comp):
    """the first child section, in file order, whose name or whose type `comp` equals after case
    normalisation; None if there is none"""
    bk = R.kt_basic_key(comp)
    for ch in node.children:
        if isinstance(ch, Sec):
            if ch.name and comp.lower() == ch.name.lower():
                return ch
            if bk is not None and bk == ch.type.lower():
                return ch
    return None


def parse_spec(spec):
    if "=" not in spec:
        raise MustReject("no-equals")
    path, val = spec.split("=", 1)
    comps = path.split("/")
    if "" in comps:
        raise MustReject("empty-component")
    return comps, val


def address(top, comps):
    """the container a path (all components but the key) addresses, or None"""
    node = top
    for comp in comps:
        node = resolve(node, comp)
        if node is None:
            return None
    return node


def edit(S, events, specs):
    """-> (edited event list, [addressed Sec per specifier]); MustReject where the statement says the
    load is refused.  Values holding '$' are outside this model (no caller generates them)."""
    top = section_tree(events)
    addressed = []
    for spec in specs:
        comps, val = parse_spec(spec)
        if "$" in val:
            raise R.OutsideDomain(spec)
        node = address(top, comps[:-1])
        if node is None:
            raise MustReject("section-not-present")
        node.over.append((comps[-1], val))
        addressed.append(node)
    out = []

    def emit(node):
        tname = node.type.lower() if node.type else None
        known = tname is None or isinstance(M.type_table(S).get(tname), M.SType)
        kt = R.KEYTYPES[M.eff_keytype(S, tname) if known else "basic-key"]
        norm = []
        for k, _ in node.over:
            nk = kt(k)
            if nk is None:
                raise MustReject("key-refused-by-keytype")
            norm.append(nk)
        for ch in node.children:
            if isinstance(ch, Sec):
                out.append(("o", ch.type, ch.name))
                emit(ch)
                out.append(("c",))
            elif kt(ch[1]) not in norm:
                out.append(ch)
        for k, v in node.over:
            out.append(("k", k, v))
    emit(top)
    return out, addressed
