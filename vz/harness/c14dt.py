"""Container datatype used by C14's 'how a container is finished' axis (wave 5).

`refuse_marked` is an identity-returning datatype of a <schema> / <sectiontype> element that
refuses (ValueError) a container one of whose own attribute values - a scalar, an element of a
multikey list, a value (or an element of a value list) of a wildcard map - is the marker string.
The marker is a value only override specifiers supply (no corpus text holds it), so a seed text
is accepted and an override decides whether the datatype of the addressed container refuses.
"""

MARK = "p=q"
PREFIX = "refused by the container datatype (vz.harness.c14dt): "


class Refused(ValueError):
    pass


def _marked(v):
    if isinstance(v, str):
        return v == MARK
    if isinstance(v, (list, tuple)):
        return any(_marked(x) for x in v)
    if isinstance(v, dict):
        return any(_marked(x) for x in v.values())
    return False


def refuse_marked(section):
    for a in section.getSectionAttributes():
        if _marked(getattr(section, a)):
            raise Refused(PREFIX + "attribute %r holds %r" % (a, MARK))
    return section
