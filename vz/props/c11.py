"""C11 - schema composition features mean the same as their written-out expansion.

Differential over schemas x texts: composed schemas are generated exhaustively
within bounds (extends chains with key type / datatype / implements variations,
prefixes on schema and section types with every relative / absolute spelling,
schema-level extends of 1..3 base files, component imports along every import
graph over three generated packages); each is rendered together with its
mechanically produced expansion (vz.gen.expand / construction), both are loaded,
and the ENTIRE C01 breadth-first search of the expanded schema is replayed on
both: identical outcome (value tree or rejection) for every text; the two schema
objects must also have the same structure modulo object identity.

Wave 2: an import graph is a graph of *references*, and one component - a
(package, file) pair - can be written in several ways (file omitted or
'component.xml' written out, package absolute or '.'-relative to the prefix),
while a second file of the same package is a different component.  Section (e)
gives every edge of every graph every spelling, and also puts a '%import P' line
in front of texts for every package whose default component the schema already
has (one more path to the same component).

Wave 3: (f) homonyms - until now every role (key type, value datatype, section datatype) had ONE full name,
so one spelling always meant one function.  Two self-similar module trees (vz.harness.c11n / c11o: P, P.inner,
P.inner.inner) publish the same three leaf names with distinguishable behaviour at every level, and every
name-resolving site of a schema document (schema element + top-level key, two section types with their own
prefixes, a derived type with its own prefix, a section type inside an imported component that has a prefix of
its own) carries every spelling pattern ('.leaf', '.inner.leaf', absolute), so that the SAME written name means
something different at different sites of one document.  (g) histories - one schema object serves several
reads: every ordered pair of '%import' lists (components the schema has / has not, repeated, reached through
another package) is read one after the other against a fresh composed schema object, every read being held
against the written-out expansion of (schema, its own %import lines).
"""
import contextlib
import functools
import importlib
import io
import itertools
import os
import re
import shutil
import sys
import tempfile
from dataclasses import replace

from vz import core
from vz.engine import bfs
from vz.gen import expand as X
from vz.gen import schema as M
from vz.harness import c11names
from vz.harness import load as H
from vz.harness import pkgs
from vz.ref import match as R

WRAP = M.SECT_DT_WRAP
SINT = "vz.harness.dt.strict_int"
LOWER = "vz.harness.dt.lower_key"
M.VALUE_TOKENS[SINT] = ["7", "x"]
M.BAD_KEY_TOKEN[LOWER] = "a-b"


# ---------------------------------------------------------------------------
# (a) extends chains

def link_item(kind, i):
    if kind == "key":
        return M.Key("k%d" % i, default="d%d" % i)
    if kind == "multikey":
        return M.MultiKey("m%d" % i, "integer", defaults=("1", "2"))
    if kind == "wild":
        return M.Key("+", attribute="w", default=(("Da", "x"), ("db", "y")))
    if kind == "wild-case":
        return M.Key("+", attribute="w", default=(("Da", "x"), ("da", "y")))
    if kind == "wildmulti":
        return M.MultiKey("+", attribute="w", defaults=(("Da", "x"), ("da", "y"), ("db", "z")))
    if kind == "section":
        return M.Sect("n%d" % i, "l1")
    if kind == "multisection":
        return M.Sect("*", "a", attribute="s%d" % i, multi=True)
    raise ValueError(kind)


KINDS = ["key", "multikey", "wild", "wildmulti", "section", "multisection"]
KT = [None, "identifier", "basic-key"]
DT = [None, WRAP]


def chain_schema(links):
    """links: list of (item kind, keytype, datatype, implements)"""
    types = [M.AType("a"), M.SType("l1", (M.Key("lk", default="d"),)),
             M.SType("i0", (M.Key("ik"),), implements="a")]
    items = []
    for i, (kind, kt, dt, impl) in enumerate(links, 1):
        types.append(M.SType("t%d" % i, (link_item(kind, i),), extends="t%d" % (i - 1) if i > 1 else None,
                             implements="a" if impl else None, keytype=kt, datatype=dt))
        items.append(M.Sect("*", "t%d" % i, attribute="c%d" % i, multi=True))
    items.append(M.Sect("*", "a", attribute="abs", multi=True))
    return M.Schema(types=tuple(types), items=tuple(items))


def chains(tier):
    out = []
    wilds = ("wild", "wildmulti", "wild-case")
    for L in (1, 2, 3):
        for kinds in itertools.product(KINDS, repeat=L):
            if sum(k in wilds for k in kinds) > 1:
                continue
            if L == 3 and tier == "quick" and kinds[0] != kinds[2] and kinds[1] != "wild":
                continue
            out.append([(k, None, None, i == 0) for i, k in enumerate(kinds)])
    # all key type / datatype / implements overrides on fixed item combinations
    fixed = [("wild", "key", "multikey"), ("key", "wildmulti", "section"), ("multisection", "key", "wild")]
    if tier == "quick":
        fixed = fixed[:1]
    for kinds in fixed:
        for L in (2, 3):
            per = list(itertools.product(KT, DT, (False, True)))
            if tier == "quick":
                per = [p for p in per if p[1] is None or p[0] is None]
            for ov in itertools.product(per, repeat=L):
                if L == 3 and tier == "quick" and ov[0] != (None, None, False) and ov[2] != (None, None, False):
                    continue
                out.append([(k,) + o for k, o in zip(kinds[:L], ov)])
    # wildcard defaults that collide only under a derived key type
    for kt2 in KT:
        out.append([("wild-case", "identifier", None, False), ("key", kt2, None, False)])
        out.append([("wildmulti", "identifier", None, False), ("key", kt2, None, False)])
    out.append([("key", None, None, False), ("key", LOWER, None, False)])
    return out


# ---------------------------------------------------------------------------
# (b) prefixes

FUNCS = {"sect": WRAP, "key": SINT, "kt": LOWER}
ROOT = "vz.harness.dt"


def spellings(full, prefix):
    out = [full]
    if prefix and full.startswith(prefix + "."):
        out.append(full[len(prefix):])
    return out


def prefix_schemas(tier):
    out = []
    p0s = [None, "vz", "vz.harness", "vz.harness.dt"]
    for p0 in p0s:
        pts = [None, "vz.harness", "vz.harness.dt", "vz"]
        if p0:
            rest = ROOT[len(p0):]                      # e.g. '.harness.dt'
            parts = rest.split(".")[1:]
            for n in range(1, len(parts) + 1):
                pts.append("." + ".".join(parts[:n]))
        for pt in pts:
            eff_t = X.eff_prefix(p0 or "", pt)
            for s_sect, s_key, s_kt in itertools.product(spellings(WRAP, eff_t), spellings(SINT, eff_t),
                                                         spellings(LOWER, eff_t)):
                for s_top in spellings(SINT, p0 or ""):
                    t = M.SType("pt", (M.Key("pk", s_key, default="1"), M.MultiKey("pm")), keytype=s_kt,
                                datatype=s_sect, prefix=pt)
                    d = M.SType("pd", (M.Key("extra", s_key),), extends="pt", prefix=pt)
                    S = M.Schema(types=(t, d), prefix=p0,
                                 items=(M.Key("topk", s_top, default="2"),
                                        M.Sect("*", "pt", attribute="pts", multi=True),
                                        M.Sect("*", "pd", attribute="pds", multi=True)))
                    out.append(S)
    return out


# ---------------------------------------------------------------------------

def outcome(sch, text):
    r = H.load(sch, text)
    if r[0] == "ok":
        return ("A", H.tree(r[1]))
    if r[0] == "rejected":
        return ("R",)
    return ("I", core.exc_desc(r[1]))


def unordered_top(t):
    if t[0] == "A" and isinstance(t[1], tuple) and t[1][0] == "S":
        s = t[1]
        return ("A", (s[0], s[1], s[2], tuple(sorted(s[3]))))
    return t


def load_or_error(xml, url=H.SURL):
    import ZConfig
    try:
        return ZConfig.loadSchemaFile(io.StringIO(xml), url), None
    except ZConfig.SchemaError as e:
        return None, "SchemaError: %s" % str(e)[:100]
    except Exception as e:
        return None, core.exc_desc(e)


def compare(composed_xml, expanded_model, acc, mid, depth, feature, composed_loader=None, top_unordered=False,
            ref_model=None, on_text=None, root=()):
    """Load both; replay the BFS of the expanded schema on both.  `ref_model`: the view of the expansion given to
    C01's reference model (which only tells the unspecified texts apart) when it does not know a datatype.
    `root`: event prefix the search starts from (wave 5).  -> 'acceptance-differs' | 'both-refused' | 'both-accepted'"""
    Sx = expanded_model
    Sr = ref_model if ref_model is not None else Sx
    ex_xml = M.render(Sx)
    sch_e, err_e = load_or_error(ex_xml)
    if composed_loader is not None:
        sch_c, err_c = composed_loader()
    else:
        sch_c, err_c = load_or_error(composed_xml)
    acc.ev()
    acc.states += 1
    case0 = dict(mid, composed=composed_xml, expanded=ex_xml)
    smid = {k: v for k, v in mid.items() if k not in ("component", "files")}      # samples: no generated names
    if (sch_e is None) != (sch_c is None) or isinstance(err_e, dict) or isinstance(err_c, dict):
        acc.violation("schema-acceptance-differs", case0, ["composed", err_c or "accepted"],
                      ["expanded", err_e or "accepted"], tags={"kind": "schema-acceptance", "feature": feature})
        return "acceptance-differs"
    if sch_e is None:
        acc.cls("both-refused")
        return "both-refused"
    acc.cls("both-accepted")
    st_c, st_e = struct(sch_c, top_unordered), struct(sch_e, top_unordered)
    if st_c != st_e:
        d = struct_diff(st_c, st_e)
        acc.violation("composed-schema-structure-differs-from-expansion", case0, ["composed"] + d[:1],
                      ["expanded"] + d[1:], tags={"kind": "structure", "feature": feature})

    def check(hist, text):
        oe = outcome(sch_e, text)
        oc = outcome(sch_c, text)
        acc.ev(2)
        if top_unordered:
            oe, oc = unordered_top(oe), unordered_top(oc)
        if any(e[0] != "c" for e in hist):
            acc.nt()
        acc.cls("text:%s" % oe[0])
        acc.sample(lambda: dict(smid, text=text, outcome=oe[0]))
        ref = R.decide(Sr, hist)
        if on_text is not None:
            on_text(hist, oe)
        if ref.verdict == "U":
            # order-dependent slot search (C01 u1-u3): nothing is specified, so nothing is compared
            acc.cls("text:unspecified")
            return False
        if oe != oc:
            acc.violation("composed-differs-from-expansion", dict(case0, text=text),
                          ["composed", oc[0], repr(oc[1:])[:300]], ["expanded", oe[0], repr(oe[1:])[:300]],
                          tags={"kind": "differs", "feature": feature, "composed": oc[0], "expanded": oe[0]})
            return False
        # the reference model is an additional, independent witness on the expanded schema
        if ref.verdict != oe[0]:
            acc.extra["expanded_disagrees_with_reference(C01's)"] += 1
        return oe[0] != "I" and ref.verdict != "U"

    bfs.explore(Sx, sch_e, tuple(root), depth, acc, check)
    return "both-accepted"


def shard_models(arg, acc):
    kind, lo, hi, tier = arg
    models = chains(tier) if kind == "chain" else prefix_schemas(tier)
    for idx in range(lo, min(hi, len(models))):
        if kind == "chain":
            S = chain_schema(models[idx])
            mid = {"feature": "extends-chain", "links": [list(l) for l in models[idx]]}
        else:
            S = models[idx]
            mid = {"feature": "prefix"}
        compare(M.render(S), X.expand(S), acc, mid, 3, mid["feature"])
    return acc


# ---------------------------------------------------------------------------
# (c) schema-level extends of base files

def schema_extends_chain(nb, variant, d, acc, layout="flat"):
    """top extends c1 extends c2 (extends c3): key type / datatype set only at one level of the chain.
    layout (wave 6): "flat" = all documents in one directory; "deeper" = every base document one directory below the
    document that extends it; "zigzag" = alternately one directory below and back up.  References are relative to the
    document that holds them."""
    where = {"chain-root": nb, "chain-mid": 1, "chain-none": 0}[variant]
    all_types, all_items = [], []
    # directory (relative to d) of document i (0 = top.xml) and the reference from document i-1 to document i
    rel = {0: ""}
    for i in range(1, nb + 1):
        if layout == "flat":
            rel[i] = ""
        elif layout == "deeper":
            rel[i] = os.path.join(rel[i - 1], "lv%d" % i)
        else:
            rel[i] = os.path.join(rel[i - 1], "zz") if i % 2 else os.path.dirname(rel[i - 1])

    def ref(i):
        r = os.path.relpath(os.path.join("/", rel[i], "chain%d.xml" % i), os.path.join("/", rel[i - 1]))
        return r.replace(os.sep, "/")
    for i in range(nb, 0, -1):
        t = M.SType("ct%d" % i, (M.Key("ck", default="c%d" % i),))
        its = (M.Key("chainkey%d" % i, default="v%d" % i), M.Sect("*", "ct%d" % i, attribute="cs%d" % i, multi=True))
        S = M.Schema(types=(t,), items=its, keytype="identifier" if i == where else None,
                     datatype=WRAP if i == where else None,
                     extends=(ref(i + 1),) if i < nb else ())
        os.makedirs(os.path.join(d, rel[i]), exist_ok=True)
        with open(os.path.join(d, rel[i], "chain%d.xml" % i), "w") as f:
            f.write(M.render(S))
        all_types.append(t)
        all_items += list(its)
    own_items = (M.Key("Own", default="o"), M.Key("own2", default="p"))
    composed = M.Schema(items=own_items, extends=(ref(1),))
    merged = M.Schema(types=tuple(all_types), items=tuple(all_items) + own_items,
                      keytype="identifier" if where else None, datatype=WRAP if where else None)
    path = os.path.join(d, "top.xml")
    with open(path, "w") as f:
        f.write(M.render(composed))

    def loader():
        import ZConfig
        try:
            return ZConfig.loadSchema(path), None
        except ZConfig.SchemaError as e:
            return None, "SchemaError: %s" % str(e)[:100]
        except Exception as e:
            return None, core.exc_desc(e)
    mid = {"feature": "schema-extends", "chain_depth": nb, "types_set_at": variant, "layout": layout}
    acc.extra["schema-extends-chain-layout/" + layout] += 1
    compare(M.render(composed), X.expand(merged), acc, mid, 3, "schema-extends", composed_loader=loader,
            top_unordered=True)


def shard_schema_extends(arg, acc):
    nb, ktvariant, tier = arg
    d = tempfile.mkdtemp(prefix="vz-c11-", dir="/dev/shm" if os.path.isdir("/dev/shm") else None)
    try:
        if ktvariant.startswith("chain"):
            schema_extends_chain(nb, ktvariant, d, acc)
            for layout in ("deeper", "zigzag"):
                d2 = os.path.join(d, layout)
                os.makedirs(d2)
                schema_extends_chain(nb, ktvariant, d2, acc, layout)
            return acc
        kts = {"none": [None] * 3, "same": ["identifier"] * 3, "conflict": ["identifier", None, "basic-key"],
               "conflict-explicit": ["identifier", None, "basic-key"], "own-only": [None] * 3}[ktvariant]
        own_kt = {"conflict-explicit": "basic-key", "own-only": "identifier"}.get(ktvariant)
        bases = []
        all_types, all_items = [], []
        for i in range(1, nb + 1):
            t = M.SType("bt%d" % i, (M.Key("bk", default="b%d" % i), M.MultiKey("bm%d" % i)))
            its = (M.Key("basekey%d" % i, default="v%d" % i), M.Sect("*", "bt%d" % i, attribute="bs%d" % i, multi=True))
            bS = M.Schema(types=(t,), items=its, keytype=kts[i - 1])
            fn = "base%d.xml" % i
            with open(os.path.join(d, fn), "w") as f:
                f.write(M.render(bS))
            bases.append(fn)
            all_types.append(t)
            all_items += list(its)
        own_t = M.SType("ot", (M.Key("ok"),), extends="bt1")
        own_items = (M.Key("own", default="o"), M.Sect("*", "ot", attribute="ots", multi=True))
        composed = M.Schema(types=(own_t,), items=own_items, keytype=own_kt, extends=tuple(bases))
        # which key type governs: explicit, else the bases' common one, else conflict -> refused
        specified = [k or "basic-key" for k in kts[:nb]]
        if own_kt:
            eff = own_kt
        elif len(set(specified)) == 1:
            eff = kts[0]
        else:
            eff = "CONFLICT"
        merged = M.Schema(types=tuple(all_types) + (own_t,), items=tuple(all_items) + own_items,
                          keytype=eff if eff != "CONFLICT" else None)
        path = os.path.join(d, "top.xml")
        with open(path, "w") as f:
            f.write(M.render(composed))

        def loader():
            import ZConfig
            try:
                return ZConfig.loadSchema(path), None
            except ZConfig.SchemaError as e:
                return None, "SchemaError: %s" % str(e)[:100]
            except Exception as e:
                return None, core.exc_desc(e)
        mid = {"feature": "schema-extends", "bases": nb, "keytypes": ktvariant}
        if eff == "CONFLICT":
            sch, err = loader()
            acc.ev()
            acc.states += 1
            acc.cls("conflicting-base-keytypes-" + ("refused" if sch is None and not isinstance(err, dict) else "accepted"))
            if sch is not None or isinstance(err, dict):
                acc.violation("conflicting-base-keytypes-not-refused", dict(mid, composed=M.render(composed)),
                              err or "accepted", "SchemaError", tags={"kind": "schema-acceptance", "feature": "schema-extends"})
            return acc
        compare(M.render(composed), X.expand(merged), acc, mid, 3, "schema-extends", composed_loader=loader,
                top_unordered=True)
    finally:
        shutil.rmtree(d, ignore_errors=True)
    return acc


# ---------------------------------------------------------------------------
# (d) component imports

def shard_imports(arg, acc):
    lo, hi, tier = arg
    combos = import_combos(tier)
    P = pkgs.Packages()
    try:
        ta = M.SType("ta", (M.Key("ak", default="a"),), implements="a")
        tb = M.SType("tb", (M.Key("bk"),), extends="ta")
        tc = M.SType("tc", (M.MultiKey("cm"),), implements="a")
        tdefs = {"pa": [ta], "pb": [tb], "pc": [tc]}
        real = {}
        made = {}
        for idx in range(lo, min(hi, len(combos))):
            pb_imp, pc_imp, top = combos[idx]
            key = (pb_imp, pc_imp)
            if key not in made:
                n = len(made)
                names = {k: "%s%d" % (k, n) for k in ("pa", "pb", "pc")}
                ra = P.add_component(names["pa"], tdefs["pa"])
                rb = P.add_component(names["pb"], tdefs["pb"], imports=[P.name(names[x]) for x in pb_imp])
                rc = P.add_component(names["pc"], tdefs["pc"], imports=[P.name(names[x]) for x in pc_imp])
                made[key] = {"pa": ra, "pb": rb, "pc": rc}
            rn = made[key]
            deps = {"pa": (), "pb": pb_imp, "pc": pc_imp}
            # expansion: types defined in place once, in first-import order
            order = []
            failed = [False]

            def imp(p):
                if p in order:
                    return
                order.append(p)            # registered before its content is read (idempotence)
                for q in deps[p]:
                    imp(q)
                seq.extend(tdefs[p])
            seq = []
            for p in top:
                imp(p)
            names_defined = [t.name for t in seq]
            ill = any(t.extends and t.extends not in names_defined[:i] for i, t in enumerate(seq))
            if ill:
                # the expansion would use a type before its definition: the composed schema must be refused
                composed = M.Schema(types=(M.AType("a"),), items=(M.Sect("*", "a", attribute="abs", multi=True),),
                                    imports=tuple(rn[p] for p in top), import_pos=1)
                sch, err = load_or_error(M.render(composed))
                acc.ev()
                acc.states += 1
                if sch is not None or isinstance(err, dict):
                    acc.violation("import-order-makes-type-undefined-but-accepted",
                                  {"feature": "component-imports", "composed": M.render(composed),
                                   "pb_imports": list(pb_imp), "schema_imports": list(top)},
                                  err or "accepted", "SchemaError",
                                  tags={"kind": "schema-acceptance", "feature": "component-imports"})
                else:
                    acc.cls("both-refused")
                continue
            items = [M.Sect("*", "a", attribute="abs", multi=True)]
            for t in seq:
                items.append(M.Sect("*", t.name, attribute="s_" + t.name, multi=True))
            composed = M.Schema(types=(M.AType("a"),), items=tuple(items), imports=tuple(rn[p] for p in top), import_pos=1)
            expanded = M.Schema(types=(M.AType("a"),) + tuple(seq), items=tuple(items))
            mid = {"feature": "component-imports", "pb_imports": list(pb_imp), "pc_imports": list(pc_imp),
                   "schema_imports": list(top)}
            compare(M.render(composed), X.expand(expanded), acc, mid, 2 if tier == "quick" else 3, "component-imports")
    finally:
        P.close()
    return acc



# ---------------------------------------------------------------------------
# (e) spelling of import references x several component files per package x %import lines
#
# A component is a (package, file) pair.  The same component can be named in several ways
# (docs/writing-schema.rst, <import>): the file left to its default or spelled 'component.xml';
# the package absolute or '.'-relative to the enclosing prefix.  A second file of a package is
# a different component.  Every edge of an import graph gets every spelling.

TARGETS = {"A": ("pa", None), "B": ("pb", None), "C": ("pc", None), "X": ("pa", "extra.xml")}
SPELL = {"quick": {None: ("abs", "file", "rel"), "extra.xml": ("abs", "rel")},
         "thorough": {None: ("abs", "file", "rel", "relfile"), "extra.xml": ("abs", "rel")}}


def refs_of(target, tier):
    return [(target, sp) for sp in SPELL[tier][TARGETS[target][1]]]


def ref_xml(root, ref):
    target, sp = ref
    pkg, fn = TARGETS[target]
    name = "." + pkg if sp.startswith("rel") else root + "." + pkg
    if fn is None and sp in ("file", "relfile"):
        fn = "component.xml"
    return '<import package="%s"%s/>' % (name, ' file="%s"' % fn if fn else "")


def needs_prefix(refs):
    return any(sp.startswith("rel") for _, sp in refs)


def edge_lists(targets, maxlen, tier, repeat=False):
    """every list of length 0..maxlen over `targets` (without repetition unless `repeat`), every spelling of
    every element"""
    out = []
    for n in range(0, maxlen + 1):
        lists = itertools.product(targets, repeat=n) if repeat else itertools.permutations(targets, n)
        for tl in lists:
            out += list(itertools.product(*[refs_of(t, tier) for t in tl]))
    return out


def spelling_space(tier):
    """package sets: (edges of pb, edges of pc); the schema's own import lists are enumerated per set"""
    pb = edge_lists(("A",), 1, tier)
    pc = edge_lists(("A", "B", "X"), 2, tier)
    return [(b, c) for b in pb for c in pc]


def top_lists(tier):
    """the schema's own import lists: length 1..2 over the tier's alphabet; thorough adds length 3 over the quick alphabet"""
    out = [t for t in edge_lists(("A", "B", "C", "X"), 2, tier, repeat=True) if t]
    if tier != "quick":
        out += [t for t in edge_lists(("A", "B", "C", "X"), 3, "quick", repeat=True) if len(t) == 3]
    return out


class CompTree:
    """One root package with the sub-packages pa, pb, pc; pa carries two component files."""

    def __init__(self, base, n, tdefs, edges):
        self.root = "vzc11_%d" % n           # n is unique over the whole run: the name (and every case) is reproducible
        d = os.path.join(base, self.root)
        os.makedirs(d)
        with open(os.path.join(d, "__init__.py"), "w") as f:
            f.write("# generated\n")
        for pkg in ("pa", "pb", "pc"):
            os.makedirs(os.path.join(d, pkg))
            with open(os.path.join(d, pkg, "__init__.py"), "w") as f:
                f.write("# generated\n")
        for target, (pkg, fn) in TARGETS.items():
            refs = edges.get(target, ())
            lines = ["<component%s>" % (' prefix="%s"' % self.root if needs_prefix(refs) else "")]
            lines += ["  " + ref_xml(self.root, r) for r in refs]
            for t in tdefs[target]:
                lines += M.render_type(t)
            lines.append("</component>")
            with open(os.path.join(d, pkg, fn or "component.xml"), "w") as f:
                f.write("\n".join(lines) + "\n")
        importlib.invalidate_caches()
        self.files = {t: open(os.path.join(d, TARGETS[t][0], TARGETS[t][1] or "component.xml")).read() for t in TARGETS}

    def forget(self):
        for k in [k for k in sys.modules if k == self.root or k.startswith(self.root + ".")]:
            del sys.modules[k]


def _fn(f):
    if f is None:
        return None
    return "%s.%s" % (getattr(f, "__module__", None) or type(f).__module__,
                      getattr(f, "__qualname__", None) or type(f).__qualname__)


def struct(schema, top_unordered=False):
    """What a schema object says, modulo object identity: per type the key type, the datatype and the
    ordered items (key, kind, name, attribute, occurrence bounds, handler, datatype, section type or default);
    per abstract type the set of implementers."""
    def rows(t):
        out = []
        for key, info in t:
            r = [key, type(info).__name__, info.name, info.attribute, info.minOccurs, repr(info.maxOccurs),
                 info.handler, _fn(info.datatype)]
            if info.issection():
                r.append(("type", info.sectiontype.name))
            else:
                r.append(("default", H.canon_value(info.getdefault())))
            out.append(tuple(r))
        return tuple(out)
    out = []
    for n in sorted(schema.gettypenames()):
        t = schema.gettype(n)
        if t.isabstract():
            out.append(("abstract", n, tuple(sorted(t.getsubtypenames()))))
        else:
            out.append(("concrete", n, _fn(t.keytype), _fn(t.datatype), rows(t)))
    top = rows(schema)
    out.append(("schema", _fn(schema.keytype), _fn(schema.datatype), schema.handler,
                tuple(sorted(top, key=repr)) if top_unordered else top))
    return tuple(out)


def struct_diff(a, b):
    for x, y in zip(a, b):
        if x != y:
            return [repr(x)[:300], repr(y)[:300]]
    return [len(a), len(b)]


def shard_spellings(arg, acc):
    lo, hi, tier = arg
    space = spelling_space(tier)
    tops = top_lists(tier)
    ta = M.SType("ta", (M.Key("ak", default="a"),), implements="a")
    tb = M.SType("tb", (M.Key("bk"),), extends="ta")
    tc = M.SType("tc", (M.MultiKey("cm"),), implements="a")
    tx = M.SType("tx", (M.Key("xk", default="x"), M.Sect("*", "a", attribute="xs", multi=True)), implements="a")
    tdefs = {"A": [ta], "B": [tb], "C": [tc], "X": [tx]}
    base = tempfile.mkdtemp(prefix="vz-c11-", dir="/dev/shm" if os.path.isdir("/dev/shm") else None)
    sys.path.insert(0, base)
    depth = 1 if tier == "quick" else 2
    try:
        for idx in range(lo, min(hi, len(space))):
            pb_edges, pc_edges = space[idx]
            T = CompTree(base, idx, tdefs, {"B": pb_edges, "C": pc_edges})
            deps = {"A": (), "X": (), "B": tuple(t for t, _ in pb_edges), "C": tuple(t for t, _ in pc_edges)}
            by_graph = {}
            for top in tops:
                by_graph.setdefault(tuple(t for t, _ in top), []).append(top)
            for gtop, variants in by_graph.items():
                d = 1 if len(gtop) > 2 else depth
                spellings_graph(T, deps, pb_edges, pc_edges, gtop, variants, tdefs, d, d - 1, acc)
            T.forget()
    finally:
        try:
            sys.path.remove(base)
        except ValueError:
            pass
        importlib.invalidate_caches()
        shutil.rmtree(base, ignore_errors=True)
    return acc


def spellings_graph(T, deps, pb_edges, pc_edges, gtop, variants, tdefs, depth, imp_depth, acc):
    """One import graph (who imports which component, in which order); `variants` are the spellings of the
    schema's own import list.  The expansion and its texts are computed once, every variant is held against it."""
    order, seq = [], []

    def imp(c):
        if c in order:
            return
        order.append(c)                # registered before its content is read
        for q in deps[c]:
            imp(q)
        seq.extend(tdefs[c])
    for c in gtop:
        imp(c)
    defined = [t.name for t in seq]
    ill = any(t.extends and t.extends not in defined[:i] for i, t in enumerate(seq))
    items = [M.Sect("*", "a", attribute="abs", multi=True)]
    if not ill:
        for t in seq:
            items.append(M.Sect("*", t.name, attribute="s_" + t.name, multi=True))
    texts = []
    sch_e = st_e = None
    if not ill:
        Sx = X.expand(M.Schema(types=(M.AType("a"),) + tuple(seq), items=tuple(items)))
        ex_xml = M.render(Sx)
        sch_e, err_e = load_or_error(ex_xml)
        if sch_e is None:
            raise core.HarnessError("expansion of an import graph refused: %r" % (err_e,))
        st_e = struct(sch_e)

        def collect(hist, text):
            oe = outcome(sch_e, text)
            ref = R.decide(Sx, hist)
            texts.append((hist, text, oe, ref.verdict))
            return oe[0] != "I" and ref.verdict != "U"
        sub = core.Acc()
        bfs.explore(Sx, sch_e, (), depth, sub, collect)
        acc.ev(1 + len(texts))         # the expansion and its texts are loaded once per graph
        acc.states += 1 + sub.states
    # packages whose default component is part of the schema: '%import P' names a component already there
    present = [T.root + "." + TARGETS[c][0] for c in order if TARGETS[c][1] is None]
    for top in variants:
        lines = M.render(M.Schema(types=(M.AType("a"),), items=tuple(items),
                                  prefix=T.root if needs_prefix(top) else None)).split("\n")
        lines[2:2] = ["  " + ref_xml(T.root, r) for r in top]
        composed = "\n".join(lines)
        sch_c, err_c = load_or_error(composed)
        acc.ev()
        acc.states += 1
        read = all_refs(top, pb_edges, pc_edges, order)
        spell = "+".join(sorted(set(sp for _, sp in read)))
        mid = {"feature": "import-spelling", "schema_imports": [list(r) for r in top],
               "pb_imports": [list(r) for r in pb_edges], "pc_imports": [list(r) for r in pc_edges],
               "composed": composed, "components": T.files, "root": T.root}
        kinds = set()
        for c in order:
            sps = [sp for cc, sp in read if cc == c]
            if len(set(sps)) > 1:
                kinds.add("same-component-spelled-differently")
            if len(sps) > 1:
                kinds.add("component-reached-repeatedly")
        if "A" in order and "X" in order:
            kinds.add("two-files-of-one-package")
        for k in kinds:
            acc.cls("imports:" + k)
        for sp in spell.split("+"):
            acc.cls("imports:uses-" + sp)
        if ill:
            if sch_c is not None or isinstance(err_c, dict):
                acc.violation("import-order-makes-type-undefined-but-accepted", mid, err_c or "accepted", "SchemaError",
                              tags={"kind": "schema-acceptance", "feature": "import-spelling"})
            else:
                acc.cls("both-refused")
            continue
        if sch_c is None:
            acc.violation("schema-acceptance-differs", dict(mid, expanded=ex_xml), ["composed", err_c],
                          ["expanded", "accepted"], tags={"kind": "schema-acceptance", "feature": "import-spelling"})
            continue
        acc.cls("both-accepted")
        st_c = struct(sch_c)
        if st_c != st_e:
            acc.violation("composed-schema-structure-differs-from-expansion", dict(mid, expanded=ex_xml),
                          ["composed"] + struct_diff(st_c, st_e)[:1], ["expanded"] + struct_diff(st_c, st_e)[1:],
                          tags={"kind": "structure", "feature": "import-spelling"})
            continue
        for hist, text, oe, verdict in texts:
            variants_t = [("", text)]
            if len(hist) <= imp_depth:
                variants_t += [("%import " + p, "%%import %s\n%s" % (p, text)) for p in present]
            for label, txt in variants_t:
                oc = outcome(sch_c, txt)
                acc.ev()
                acc.transitions += 1
                if hist:
                    acc.nt()
                acc.cls("text:%s" % oe[0])
                if label:
                    acc.cls("imports:text-with-%import-of-a-present-component")
                acc.sample(lambda: {"feature": "import-spelling", "schema_imports": [list(r) for r in top],
                                    "text": txt, "outcome": oe[0]})
                if verdict == "U":
                    acc.cls("text:unspecified")
                    continue
                if oe != oc:
                    acc.violation("composed-differs-from-expansion", dict(mid, expanded=ex_xml, text=txt),
                                  ["composed", oc[0], repr(oc[1:])[:300]], ["expanded", oe[0], repr(oe[1:])[:300]],
                                  tags={"kind": "differs", "feature": "import-spelling", "composed": oc[0],
                                        "expanded": oe[0], "percent_import": bool(label)})
                    break


def all_refs(top, pb_edges, pc_edges, order):
    """references actually read while the schema is loaded"""
    out = list(top)
    if "B" in order:
        out += list(pb_edges)
    if "C" in order:
        out += list(pc_edges)
    return out


# ---------------------------------------------------------------------------
# (f) homonyms: one spelling, several meanings
#
# vz.harness.c11n and vz.harness.c11o are self-similar trees P, P.inner, P.inner.inner; every level publishes
# conv / key / sect with its own distinguishable behaviour (vz.harness.c11names).  A *site* is an element whose
# attributes name conversions: the schema element together with its top-level key, a section type (with the
# keys inside), a derived type.  Every site carries one spelling pattern for all its names.

RN, RO = "vz.harness.c11n", "vz.harness.c11o"
LEVELS = tuple(c11names.TAGS)
H_ABS = RN + ".inner"                      # what the absolute spelling names, wherever it is written
H_PATTERNS = ("rel", "relinner", "abs")    # '.leaf' | '.inner.leaf' | 'vz.harness.c11n.inner.leaf'
H_LEAVES = ("conv", "key", "sect")
for _lvl in LEVELS:
    M.VALUE_TOKENS[_lvl + ".conv"] = ["v"]
    M.BAD_KEY_TOKEN[_lvl + ".key"] = "a-b"
    R.ALIASES[_lvl + ".conv"] = "string"           # accepts every text (the tag shows in the tree only)
    R.KEYTYPES[_lvl + ".key"] = functools.partial(c11names.key_rule, c11names.TAGS[_lvl])


def h_names(pattern, eff, force=False):
    """{leaf: spelling} for a site whose effective prefix is `eff`, or None when the pattern names nothing there"""
    out = {}
    for leaf in H_LEAVES:
        if pattern == "abs":
            out[leaf] = H_ABS + "." + leaf
            continue
        sp = ("." if pattern == "rel" else ".inner.") + leaf
        if (eff + sp).rsplit(".", 1)[0] not in LEVELS and not force:
            return None
        out[leaf] = sp
    return out


H_P0 = (RN, RN + ".inner")
H_PT = (None, ".inner", RN, RO)            # inherited | relative | absolute outward / same | absolute elsewhere
H_PD = (None, ".inner", RO)
H_PC = ("", RN, RO + ".inner")             # prefix of the other document (component / base schema file); '' = none


def other_doc(desc):
    """prefix of the document h2 is defined in when that is not the schema document itself ('' = it has none)"""
    return desc[0][2:] if desc[0][:2] in ("K:", "X:") else None


def h2_prefix(desc):
    pc = other_doc(desc)
    return X.eff_prefix(desc[1] if pc is None else pc, desc[3])


def homonym_space(tier):
    """descriptors (family, p0, pt1, pt2, pd, s0, s1, s2, sd, key_first); a site that is absent has None.
    family A: schema + h1 + derived hd; B: schema + h1 + h2; C (thorough): all four sites;
    K: schema + h1 + h2 defined in an imported component with a prefix of its own (pt2 relative to that);
    X: the same with h2 (and its slot) in a base schema file that the schema extends."""
    out = []

    def ok(p0, pt1, pt2, pd, s0, s1, s2, sd, pc=None):
        if h_names(s0, p0) is None or h_names(s1, X.eff_prefix(p0, pt1)) is None:
            return False
        if s2 is not None and pc != "" and h_names(s2, X.eff_prefix(pc or p0, pt2)) is None:
            return False            # (in a document without a prefix every pattern is kept: relative names name nothing)
        if sd is not None and h_names(sd, X.eff_prefix(p0, pd)) is None:
            return False
        return True
    P3 = list(itertools.product(H_PATTERNS, repeat=3))
    for p0 in H_P0:
        for pt1 in H_PT:
            if tier == "quick":
                for pd in H_PD:
                    for s0, s1, sd in P3:
                        for kf in (False, True):
                            if ok(p0, pt1, None, pd, s0, s1, None, sd):
                                out.append(("A", p0, pt1, None, pd, s0, s1, None, sd, kf))
                for pt2 in H_PT:
                    for s0, s1, s2 in P3:
                        if ok(p0, pt1, pt2, None, s0, s1, s2, None):
                            out.append(("B", p0, pt1, pt2, None, s0, s1, s2, None, False))
            else:
                for pt2 in H_PT:
                    for pd in H_PD:
                        for s0, s1, s2, sd in itertools.product(H_PATTERNS, repeat=4):
                            for kf in (False, True):
                                if ok(p0, pt1, pt2, pd, s0, s1, s2, sd):
                                    out.append(("C", p0, pt1, pt2, pd, s0, s1, s2, sd, kf))
        for pt1 in (None, ".inner"):
            for pc in H_PC:
                for pt2 in ((None, ".inner") if pc else (None, RO)):
                    for s0, s1, s2 in P3:
                        if ok(p0, pt1, pt2, None, s0, s1, s2, None, pc=pc):
                            out.append(("K:" + pc, p0, pt1, pt2, None, s0, s1, s2, None, False))
                            out.append(("X:" + pc, p0, pt1, pt2, None, s0, s1, s2, None, False))
    return out


def homonym_model(desc):
    """-> (composed model without h2 when h2 lives in a component, h2 or None, component prefix or None)"""
    fam, p0, pt1, pt2, pd, s0, s1, s2, sd, kf = desc
    pc = other_doc(desc)
    n0 = h_names(s0, p0)
    n1 = h_names(s1, X.eff_prefix(p0, pt1))
    h1 = M.SType("h1", (M.Key("pk", n1["conv"], default="1"),
                        M.Key("+", n1["conv"], attribute="w", default=(("Da", "x"),))),
                 keytype=n1["key"], datatype=n1["sect"], prefix=pt1)
    types = [h1]
    items = [M.Key("topk", n0["conv"], default="0"), M.Sect("*", "h1", attribute="s1", multi=True)]
    h2 = None
    if s2 is not None:
        n2 = h_names(s2, h2_prefix(desc), force=True)
        h2 = M.SType("h2", (M.Key("pk", n2["conv"], default="2"), M.MultiKey("pm", n2["conv"], defaults=("a",))),
                     keytype=n2["key"], datatype=n2["sect"], prefix=pt2)
        if pc is None:
            types.append(h2)
        items.append(M.Sect("*", "h2", attribute="s2", multi=True))
    if sd is not None:
        nd = h_names(sd, X.eff_prefix(p0, pd))
        types.append(M.SType("hd", (M.Key("extra", nd["conv"], default="3"),), extends="h1", datatype=nd["sect"],
                             prefix=pd))
        items.append(M.Sect("*", "hd", attribute="sd", multi=True))
    S = M.Schema(types=tuple(types), items=tuple(items), prefix=p0, keytype=n0["key"], datatype=n0["sect"])
    return S, h2, pc


def without_section_datatypes(S):
    """C01's reference model knows no section datatype of the homonym trees; they accept every section, so
    for telling the unspecified texts apart they are left out."""
    return replace(S, datatype=None, types=tuple(replace(t, datatype=None) if isinstance(t, M.SType) else t
                                                  for t in S.types))


def site_prefixes(desc):
    fam, p0, pt1, pt2, pd, s0, s1, s2, sd, kf = desc
    out = [(s0, p0), (s1, X.eff_prefix(p0, pt1))]
    if s2 is not None:
        out.append((s2, h2_prefix(desc)))
    if sd is not None:
        out.append((sd, X.eff_prefix(p0, pd)))
    return out


def shard_homonyms(arg, acc):
    lo, hi, tier = arg
    space = homonym_space(tier)
    depth = 1 if tier == "quick" else 2
    P = None
    d = None
    comps, bases = {}, {}
    try:
        for idx in range(lo, min(hi, len(space))):
            desc = space[idx]
            S, h2, pc = homonym_model(desc)
            mid = {"feature": "homonyms", "sites": list(desc)}
            loader = None
            unordered = False
            if pc is None:
                full = S
                composed_xml = M.render(S)
            else:
                # the expansion: the type of the other document defined in place under that document's own
                # prefix (absolute: nothing of the importing / extending document reaches into it); a
                # relative name that has no enclosing prefix in its own document names nothing
                h2x = replace(h2, prefix=h2_prefix(desc) or None)
                nameless = h_names(desc[7], h2_prefix(desc)) is None
                if desc[0].startswith("K:"):
                    if P is None:
                        P = pkgs.Packages()
                    ck = (pc, h2)
                    if ck not in comps:
                        comps[ck] = P.add_component("h%d" % len(comps), [h2], prefix=pc or None)
                    composed_xml = M.render(replace(S, imports=(comps[ck],), import_pos=0))
                    full = replace(S, types=(h2x,) + S.types)
                    mid["component"] = open(os.path.join(P.dir, comps[ck], "component.xml")).read()
                else:
                    if d is None:
                        d = tempfile.mkdtemp(prefix="vz-c11-", dir="/dev/shm" if os.path.isdir("/dev/shm") else None)
                    slot2 = [it for it in S.items if isinstance(it, M.Sect) and it.type == "h2"]
                    own = tuple(it for it in S.items if it not in slot2)
                    ck = (pc, h2)
                    if ck not in bases:
                        bases[ck] = "hbase%d.xml" % len(bases)
                        with open(os.path.join(d, bases[ck]), "w") as f:
                            f.write(M.render(M.Schema(types=(h2,), items=tuple(slot2), prefix=pc or None)))
                    composed_xml = M.render(replace(S, items=own, extends=(bases[ck],)))
                    path = os.path.join(d, "htop.xml")
                    with open(path, "w") as f:
                        f.write(composed_xml)
                    full = replace(S, types=(h2x,) + S.types, items=tuple(slot2) + own)
                    unordered = True
                    mid["files"] = {bases[ck]: open(os.path.join(d, bases[ck])).read(), "htop.xml": composed_xml}

                    def loader(path=path):
                        import ZConfig
                        try:
                            return ZConfig.loadSchema(path), None
                        except ZConfig.SchemaError as e:
                            return None, "SchemaError: %s" % str(e)[:100]
                        except Exception as e:
                            return None, core.exc_desc(e)
            if pc is not None and nameless:
                sch, err = loader() if loader is not None else load_or_error(composed_xml)
                acc.ev()
                acc.states += 1
                acc.cls("homonyms:relative-name-in-a-document-without-prefix")
                if sch is not None or isinstance(err, dict):
                    acc.violation("relative-name-without-enclosing-prefix-accepted", dict(mid, composed=composed_xml),
                                  err or "accepted", "SchemaError",
                                  tags={"kind": "schema-acceptance", "feature": "homonyms"})
                else:
                    acc.cls("both-refused")
                continue
            if desc[9]:
                lines = composed_xml.split("\n")
                i = [n for n, l in enumerate(lines) if l.startswith('  <key name="topk"')][0]
                lines.insert(1, lines.pop(i))
                composed_xml = "\n".join(lines)
            Sx = X.expand(full)
            sites = site_prefixes(desc)
            same = set()
            for (sa, pa), (sb, pb) in itertools.combinations(sites, 2):
                if sa == sb and sa != "abs" and pa != pb:
                    same.add("homonyms:one-relative-spelling-under-two-effective-prefixes")
                if sa != sb and sa != "abs" and sb != "abs":
                    ta = pa + ("" if sa == "rel" else ".inner")
                    tb = pb + ("" if sb == "rel" else ".inner")
                    if ta == tb:
                        same.add("homonyms:one-function-under-two-relative-spellings")
            for k in same:
                acc.cls(k)
            acc.cls("homonyms:family-" + desc[0][0])
            if desc[9]:
                acc.cls("homonyms:top-level-key-before-the-types")
            seen = set()

            def on_text(hist, oe, seen=seen):
                if oe[0] == "A":
                    for tag in c11names.TAGS.values():
                        if tag not in seen and ("'%s'" % tag) in repr(oe):
                            seen.add(tag)
            compare(composed_xml, Sx, acc, mid, depth, "homonyms", ref_model=without_section_datatypes(Sx),
                    on_text=on_text, composed_loader=loader, top_unordered=unordered)
            acc.cls("homonyms:levels-visible-in-trees-%d" % len(seen))
    finally:
        if P is not None:
            P.close()
        if d is not None:
            shutil.rmtree(d, ignore_errors=True)
    return acc


# ---------------------------------------------------------------------------
# (g) histories: one schema object, several reads with %import lines
#
# Each read of a history is held against the expansion of (the schema, the %import lines of THAT text):
# the types of every component not yet part of the schema written out in place, once, in first-import order,
# and the text without the lines.  What an earlier read imported must not matter.

H_PKGS = ("pa", "pb", "pc")


def q_lists(maxlen):
    out = []
    for n in range(0, maxlen + 1):
        out += list(itertools.product(H_PKGS, repeat=n))
    return out


def history_worlds():
    return [(pb_imp, pc_imp) for pb_imp in ((), ("pa",))
            for pc_imp in ((), ("pa",), ("pb",), ("pa", "pb"), ("pb", "pa"))]


def history_bounds(tier):
    """(schema import lists, first-read lists, second-read lists, third-read lists or None)"""
    if tier == "quick":
        return q_lists(1), q_lists(2), q_lists(2), q_lists(1)
    return q_lists(2), q_lists(2), q_lists(2), q_lists(1)


def quick_body(hist):
    """quick tier: of the texts of depth 1, those whose section name is absent or 'n1' (and all key lines)"""
    return not hist or hist[-1][0] == "k" or hist[-1][2] in (None, "n1")


def shard_histories(arg, acc):
    world, top, tier = arg
    pb_imp, pc_imp = world
    tops, q1s, q2s, q3s = history_bounds(tier)
    ta = M.SType("ta", (M.Key("ak", default="a"),), implements="a")
    tb = M.SType("tb", (M.Key("bk"),), extends="ta")
    tc = M.SType("tc", (M.MultiKey("cm"),), implements="a")
    tdefs = {"pa": [ta], "pb": [tb], "pc": [tc]}
    deps = {"pa": (), "pb": pb_imp, "pc": pc_imp}
    P = pkgs.Packages()
    try:
        rn = {}
        rn["pa"] = P.add_component("pa", tdefs["pa"])
        rn["pb"] = P.add_component("pb", tdefs["pb"], imports=[P.name(x) for x in pb_imp])
        rn["pc"] = P.add_component("pc", tdefs["pc"], imports=[P.name(x) for x in pc_imp])
        files = {rn[p]: open(os.path.join(P.dir, rn[p], "component.xml")).read() for p in H_PKGS}

        def closure(lst):
            """components read, in first-import order; the types they define in that order; ill = a type is
            used before its definition"""
            order, seq = [], []

            def imp(p):
                if p in order:
                    return
                order.append(p)
                for q in deps[p]:
                    imp(q)
                seq.extend(tdefs[p])
            for p in lst:
                imp(p)
            defined = [t.name for t in seq]
            ill = any(t.extends and t.extends not in defined[:i] for i, t in enumerate(seq))
            return order, seq, ill

        order_top, seq_top, ill_top = closure(top)
        items = [M.Sect("*", "a", attribute="abs", multi=True)]
        if not ill_top:
            items += [M.Sect("*", t.name, attribute="s_" + t.name, multi=True) for t in seq_top]
        composed = M.Schema(types=(M.AType("a"),), items=tuple(items), imports=tuple(rn[p] for p in top), import_pos=1)
        composed_xml = M.render(composed)
        base = {"feature": "import-history", "schema_imports": list(top), "pb_imports": list(pb_imp),
                "pc_imports": list(pc_imp), "composed": composed_xml, "components": files}
        if ill_top:
            sch, err = load_or_error(composed_xml)
            acc.ev()
            acc.states += 1
            if sch is not None or isinstance(err, dict):
                acc.violation("import-order-makes-type-undefined-but-accepted", base, err or "accepted", "SchemaError",
                              tags={"kind": "schema-acceptance", "feature": "import-history"})
            else:
                acc.cls("both-refused")
            return acc
        depth = 1
        cache = {}

        def expected(Q):
            """None when the expansion is not a schema (the read must be refused), else (expanded xml,
            [(hist, body, outcome, reference verdict)])"""
            order, seq, ill = closure(tuple(top) + tuple(Q))
            if ill:
                return None
            k = tuple(t.name for t in seq)
            if k not in cache:
                Sx = X.expand(M.Schema(types=(M.AType("a"),) + tuple(seq), items=tuple(items)))
                ex_xml = M.render(Sx)
                sch_e, err_e = load_or_error(ex_xml)
                if sch_e is None:
                    raise core.HarnessError("expansion of a schema with %%import'ed types refused: %r" % (err_e,))
                texts = []

                def collect(hist, text):
                    oe = outcome(sch_e, text)
                    ref = R.decide(Sx, hist)
                    if tier != "quick" or quick_body(hist):
                        texts.append((hist, text, oe, ref.verdict))
                    return oe[0] != "I" and ref.verdict != "U"
                sub = core.Acc()
                bfs.explore(Sx, sch_e, (), depth, sub, collect)
                # ... and a section of every type of the world that is NOT part of this expansion (what an
                # earlier read imported is not there for this one)
                foreign = [t.name for p in H_PKGS for t in tdefs[p] if t.name not in k]
                for tn in foreign:
                    h = (("e", tn, None),)
                    texts.append((h, H.render_events(h), outcome(sch_e, H.render_events(h)), R.decide(Sx, h).verdict))
                acc.ev(1 + sub.transitions + len(foreign))
                acc.states += 1 + sub.states
                cache[k] = (ex_xml, texts, k)
            return cache[k]

        def read(sch_c, Q, exp, bodies, earlier, first, earlier_q):
            """one read per body against `sch_c`; -> False as soon as one differs"""
            lines = "".join("%%import %s\n" % rn[p] for p in Q)
            for hist, body, oe, verdict in bodies:
                text = lines + body
                oc = outcome(sch_c, text)
                acc.ev()
                acc.transitions += 1
                if first:
                    acc.nt()
                want = oe if exp is not None else ("R",)
                acc.cls("text:%s" % want[0])
                acc.sample(lambda: {"feature": "import-history", "schema_imports": list(top),
                                    "pb_imports": list(pb_imp), "pc_imports": list(pc_imp),
                                    "earlier_reads_import": [list(q) for q in earlier_q], "this_read_imports": list(Q),
                                    "body": body, "outcome": want[0]})
                if verdict == "U":
                    acc.cls("text:unspecified")
                    continue
                if oc != want:
                    acc.violation("read-differs-from-expansion-of-schema-plus-its-own-%import-lines",
                                  dict(base, earlier_reads=list(earlier), text=text, body=body,
                                       expanded=exp[0] if exp is not None else None),
                                  ["composed", oc[0], repr(oc[1:])[:300]], ["expanded", want[0], repr(want[1:])[:300]],
                                  tags={"kind": "history-differs", "feature": "import-history", "composed": oc[0],
                                        "expanded": want[0], "read": len(earlier) + 1,
                                        "earlier_read_imported": bool(first)})
                    return False
            return True

        REFUSED = [((), "", ("R",), "R")]
        top_set = set(order_top)

        def history(qs):
            sch_c, err_c = load_or_error(composed_xml)
            acc.ev()
            acc.states += 1
            if sch_c is None:
                acc.violation("schema-acceptance-differs", base, ["composed", err_c], ["expanded", "accepted"],
                              tags={"kind": "schema-acceptance", "feature": "import-history"})
                return
            earlier = []
            new_before = set()          # components an earlier read brought in although the schema has not got them
            refused_before = False
            for n, Q in enumerate(qs):
                exp = expected(Q)
                last = n == len(qs) - 1
                if exp is None:
                    bodies = REFUSED
                elif last:
                    bodies = exp[1]
                else:
                    bodies = [t for t in exp[1] if not t[0]]          # the empty body
                if last:
                    mine = set(closure(tuple(top) + tuple(Q))[0]) - top_set
                    if new_before:
                        acc.cls("history:last-read-after-a-read-that-imported-an-absent-component")
                    if set(Q) & new_before:
                        acc.cls("history:last-read-imports-again-what-an-earlier-read-imported")
                    if (mine & new_before) - set(Q):
                        acc.cls("history:last-read-reaches-an-earlier-read's-component-through-another-package")
                    if refused_before:
                        acc.cls("history:last-read-after-a-refused-read")
                    if exp is None:
                        acc.cls("history:last-read-must-be-refused")
                    elif any(t.name not in exp[2] for p in new_before for t in tdefs[p]):
                        acc.cls("history:last-read-names-a-type-only-an-earlier-read-imported")
                if not read(sch_c, Q, exp, bodies, earlier, bool(new_before), qs[:n]):
                    return
                earlier.append("".join("%%import %s\n" % rn[p] for p in Q))
                if exp is not None:
                    new_before |= set(closure(tuple(top) + tuple(Q))[0]) - top_set
                else:
                    refused_before = True

        for q1 in q1s:
            for q2 in q2s:
                history((q1, q2))
                acc.cls("history:pairs")
        if q3s is not None:
            for q1 in q3s:
                for q2 in q3s:
                    for q3 in q3s:
                        history((q1, q2, q3))
                        acc.cls("history:triples")
    finally:
        P.close()
    return acc


# ---------------------------------------------------------------------------
# Wave 5.  Three axes that were missing:
#
# (h) NAMES ALREADY IN USE.  Until now every generated child had a fresh plain name, so a key name was always its
#     own attribute name and nothing a derived type (or an extending schema) added ever met anything inherited.
#     Written out, an added child clashes with an inherited one iff the key names or the attribute names coincide;
#     here the inherited children have attribute != key name (hyphen / capitals folded, attribute= given, '*'
#     sections that have no key at all, the '+' key) and the added child takes EVERY (key name, attribute) pair over
#     the pool of names the inherited children occupy in either table.
# (i) IMPORT GRAPHS WITH BACK EDGES.  Import graphs had been acyclic (pb -> pa, pc -> pa / pb): a second path to a
#     component always arrived after the first import had completed.  Now every package imports every list over ALL
#     packages (itself included), and a component has its <import> elements before or after its own types.
# (j) NAMES THAT KEY TYPES TELL APART, IN EVERY DOCUMENT OF A SCHEMA-EXTENDS SET-UP.  Base schema files only had
#     lower-case names (fixed points of every key type), so it did not matter under which key type the body of a
#     base file was read.  Every tree of <= 3 base documents x every key type assignment x the document that
#     carries a '+' key with capitalised default keys.

NT_FORMS = ("L2", "L3-far", "L3-near", "X")


def nt_base_alphabet(kt):
    hy = kt != "identifier"           # 'a-b' is no identifier: there the renamed children are renamed by case folding
    return (("renamed-key", M.Key("a-b" if hy else "Ab", default="1")),
            ("key-with-attribute", M.Key("k", attribute="v", default="2")),
            ("star-section", M.Sect("*", "l1", attribute="s")),
            ("star-multisection", M.Sect("*", "l1", attribute="ms", multi=True)),
            ("named-section-with-attribute", M.Sect("n", "l1", attribute="sv")),
            ("renamed-multikey", M.MultiKey("m-k" if hy else "Mk", defaults=("1",))),
            ("wildcard-key", M.Key("+", attribute="w", default=(("da", "x"),))),
            ("plain-key", M.Key("p", default="3")))


def nt_names(it, kt):
    """(key name or None, attribute name or None) of a child as docs/writing-schema.rst defines them: the key name
    is the name converted by the key type of the container ('+' for a wildcard key, none for '*' / '+' sections);
    the attribute is attribute= or else the key name lower-cased with '-' replaced by '_'.  None = not a name."""
    if it.name in ("*", "+"):
        key = "+" if isinstance(it, (M.Key, M.MultiKey)) else None
        attr = it.attribute
    else:
        key = R.KEYTYPES[kt or "basic-key"](it.name)
        if key is None:
            return None, None
        attr = it.attribute or key.lower().replace("-", "_")
    if attr is not None and R.kt_identifier(attr) is None:
        return key, None
    return key, attr


def nt_pool(base_items, kt):
    """every name the inherited children occupy as key name or as attribute, the key names in capitals, and 'z'"""
    out = []
    for it in base_items:
        key, attr = nt_names(it, kt)
        named = it.name not in ("*", "+")
        for n in (it.name if named else None, attr, it.name.upper() if named else None):
            if n and n not in out:
                out.append(n)
    out.append("z")
    return out


def nt_added(pool, tier):
    """the child the derived type adds: kind x key name x attribute (None = computed from the name)"""
    attrs = [None] + [n for n in pool if R.kt_identifier(n) is not None]
    out = []
    for n in pool:
        for a in attrs:
            out.append(M.Key(n, attribute=a, default="9"))
            out.append(M.Sect(n, "l1", attribute=a))
            if tier != "quick":
                out.append(M.MultiKey(n, attribute=a, defaults=("9",)))
    for a in attrs[1:]:
        out.append(M.Key("+", attribute=a, default=(("da", "x"),)))
        out.append(M.Sect("*", "l1", attribute=a))
        if tier != "quick":
            out.append(M.Sect("*", "l1", attribute=a, multi=True))
            out.append(M.Sect("+", "l1", attribute=a))
    return out


def nt_space(tier):
    """(form, key type, labels of the inherited children).  quick: one inherited child in every form under both key
    types, two inherited children (every unordered pair) in form L2 under both key types;
    thorough: one and two (every ORDERED pair) in every form under both key types."""
    out = []
    for kt in (None, "identifier"):
        labels = [l for l, _ in nt_base_alphabet(kt)]
        for form in NT_FORMS:
            for l in labels:
                out.append((form, kt, (l,)))
            if tier != "quick":
                out += [(form, kt, p) for p in itertools.permutations(labels, 2)]
            elif form == "L2":
                out += [(form, kt, p) for p in itertools.combinations(labels, 2)]
    return out


def nt_items(kt, labels):
    tab = dict(nt_base_alphabet(kt))
    return tuple(tab[l] for l in labels)


def nt_count(tier):
    return sum(len(nt_added(nt_pool(nt_items(kt, labels), kt), tier)) for _, kt, labels in nt_space(tier))


def nt_relation(base_items, d, kt):
    """how the added child relates to the inherited ones (reference view; classifies, never decides)"""
    dk, da = nt_names(d, kt)
    if (dk is None and d.name not in ("*", "+")) or da is None:
        return "not-a-name", True
    rel = set()
    for it in base_items:
        k, a = nt_names(it, kt)
        if dk is not None and dk == k:
            rel.add("same-key-name")
        elif da == a:
            rel.add("same-attribute-different-key-name")
        if da is not None and da == k and a != k:
            rel.add("attribute-equals-an-inherited-key-name")
        if dk is not None and dk == a and a != k:
            rel.add("key-name-equals-an-inherited-attribute")
    clash = bool(rel & {"same-key-name", "same-attribute-different-key-name"})
    for r in ("same-key-name", "same-attribute-different-key-name", "attribute-equals-an-inherited-key-name",
              "key-name-equals-an-inherited-attribute"):
        if r in rel:
            return r, clash
    return "unrelated", clash


def file_loader(path):
    def loader():
        import ZConfig
        try:
            return ZConfig.loadSchema(path), None
        except ZConfig.SchemaError as e:
            return None, "SchemaError: %s" % str(e)[:100]
        except Exception as e:
            return None, core.exc_desc(e)
    return loader


def shard_names(arg, acc):
    lo, hi, tier = arg
    space = nt_space(tier)
    l1 = M.SType("l1", (M.Key("lk", default="d"),))
    q = M.Key("q", default="4")
    d0 = None
    try:
        for idx in range(lo, min(hi, len(space))):
            form, kt, labels = space[idx]
            base_items = nt_items(kt, labels)
            for d in nt_added(nt_pool(base_items, kt), tier):
                mid = {"feature": "names-in-use", "form": form, "keytype": kt, "inherited": list(labels),
                       "added": [type(d).__name__ + ("*" if getattr(d, "multi", False) else ""), d.name, d.attribute]}
                rel, clash = nt_relation(base_items + ((q,) if form.startswith("L3") else ()), d, kt)
                if form == "X":
                    if d0 is None:
                        d0 = tempfile.mkdtemp(prefix="vz-c11-", dir="/dev/shm" if os.path.isdir("/dev/shm") else None)
                    base_xml = M.render(M.Schema(types=(l1,), items=base_items, keytype=kt))
                    top_xml = M.render(M.Schema(items=(d,), extends=("nbase.xml",)))
                    for fn, xml in (("nbase.xml", base_xml), ("htop.xml", top_xml)):
                        with open(os.path.join(d0, fn), "w") as f:
                            f.write(xml)
                    mid["files"] = {"nbase.xml": base_xml, "htop.xml": top_xml}
                    merged = M.Schema(types=(l1,), items=base_items + (d,), keytype=kt)
                    st = compare(top_xml, X.expand(merged), acc, mid, 1, "names-in-use",
                                 composed_loader=file_loader(os.path.join(d0, "htop.xml")), top_unordered=True)
                else:
                    if form == "L2":
                        types = [M.SType("nb", base_items, keytype=kt), M.SType("nd", (d,), extends="nb")]
                    elif form == "L3-far":
                        types = [M.SType("nb", base_items, keytype=kt), M.SType("nm", (q,), extends="nb"),
                                 M.SType("nd", (d,), extends="nm")]
                    else:
                        types = [M.SType("nb", (q,), keytype=kt), M.SType("nm", base_items, extends="nb"),
                                 M.SType("nd", (d,), extends="nm")]
                    S = M.Schema(types=(l1,) + tuple(types),
                                 items=tuple(M.Sect("*", t.name, attribute="c_" + t.name, multi=True) for t in types))
                    st = compare(M.render(S), X.expand(S), acc, mid, 1, "names-in-use", root=(("o", "nd", None),))
                acc.cls("names:%s:%s" % (rel, st))
                acc.cls("names:form-%s" % form)
                if st != "acceptance-differs" and clash != (st == "both-refused"):
                    acc.extra["names: the expansion's acceptance is not what the documented naming rule says"] += 1
    finally:
        if d0 is not None:
            shutil.rmtree(d0, ignore_errors=True)
    return acc


# ---------------------------------------------------------------------------
# (i) import graphs with back edges

CY_PK = ("pa", "pb", "pc")


def cy_lists(tier):
    out = [()] + [(p,) for p in CY_PK]
    if tier != "quick":
        out += list(itertools.permutations(CY_PK, 2))
    return out


def cy_worlds(tier):
    """(imports of pa, of pb, of pc, (types-first flag per package)).  Every package imports every list of length <= 2
    without repetition over ALL three packages (the package itself included); the flag 'types before the <import>
    elements' per package (quick: per package when no list is longer than 1, else all components alike)."""
    ls = cy_lists("thorough")
    uniform = [(False,) * 3, (True,) * 3]
    every = list(itertools.product((False, True), repeat=3))
    out = []
    for a in ls:
        for b in ls:
            for c in ls:
                short = max(len(a), len(b), len(c)) <= 1
                out += [(a, b, c, fl) for fl in (every if short or tier != "quick" else uniform)]
    return out


def cy_tops():
    return [t for n in (1, 2) for t in itertools.product(CY_PK, repeat=n)]


def cy_component(imports, types, types_first):
    lines = ["<component>"]
    imp = ['  <import package="%s"/>' % p for p in imports]
    body = []
    for t in types:
        body += M.render_type(t)
    lines += (body + imp) if types_first else (imp + body)
    lines.append("</component>")
    return "\n".join(lines) + "\n"


def shard_cycles(arg, acc):
    lo, hi, tier = arg
    worlds = cy_worlds(tier)
    tops = cy_tops()
    ta = M.SType("ta", (M.Key("ak", default="a"),), implements="a")
    tb = M.SType("tb", (M.Key("bk"),), extends="ta")
    tc = M.SType("tc", (M.MultiKey("cm"),), implements="a")
    tdefs = {"pa": [ta], "pb": [tb], "pc": [tc]}
    P = pkgs.Packages()
    cache = {}

    def expected(k_top, k_all, items):
        """the expansion with the types k_all (in this order) and the slots of k_top: schema object, structure,
        every text of the depth-1 search, and four probe bodies"""
        if (k_top, k_all) not in cache:
            byname = {t.name: t for ts in tdefs.values() for t in ts}
            Sx = X.expand(M.Schema(types=(M.AType("a"),) + tuple(byname[n] for n in k_all), items=tuple(items)))
            ex_xml = M.render(Sx)
            sch_e, err_e = load_or_error(ex_xml)
            if sch_e is None:
                raise core.HarnessError("expansion of an import graph refused: %r" % (err_e,))
            texts = []

            def collect(hist, text):
                oe = outcome(sch_e, text)
                ref = R.decide(Sx, hist)
                texts.append((hist, text, oe, ref.verdict))
                return oe[0] != "I" and ref.verdict != "U"
            sub = core.Acc()
            bfs.explore(Sx, sch_e, (), 1, sub, collect)
            probes = []
            for h in [()] + [(("e", n, None),) for n in ("ta", "tb", "tc")]:
                txt = H.render_events(h)
                probes.append((h, txt, outcome(sch_e, txt), R.decide(Sx, h).verdict))
            acc.ev(1 + len(texts) + len(probes))
            acc.states += 1 + sub.states
            cache[(k_top, k_all)] = (ex_xml, struct(sch_e), texts, probes)
        return cache[(k_top, k_all)]

    try:
        for widx in range(lo, min(hi, len(worlds))):
            da, db, dc, flags = worlds[widx]
            deps = {"pa": da, "pb": db, "pc": dc}
            tfirst = dict(zip(CY_PK, flags))
            rn = {p: P.add_component("%s%d" % (p, widx), tdefs[p]) for p in CY_PK}
            files = {}
            for p in CY_PK:
                files[rn[p]] = cy_component([rn[x] for x in deps[p]], tdefs[p], tfirst[p])
                with open(os.path.join(P.dir, rn[p], "component.xml"), "w") as f:
                    f.write(files[rn[p]])

            def closure(lst):
                """components in first-import order (a component counts as imported from the moment its import
                starts: a path that leads back to it finds it there), the types in the order in which they are
                written out, whether a type is used before its definition, what kinds of repeated arrival occurred"""
                order, seq, stack, kinds = [], [], [], set()

                def imp(p):
                    if p in order:
                        if stack and stack[-1] == p:
                            kinds.add("component-imports-itself")
                        elif p in stack:
                            kinds.add("back-edge-to-a-component-in-progress")
                        else:
                            kinds.add("second-path-to-a-completed-component")
                        return
                    order.append(p)
                    stack.append(p)
                    if tfirst[p]:
                        seq.extend(tdefs[p])
                    for x in deps[p]:
                        imp(x)
                    if not tfirst[p]:
                        seq.extend(tdefs[p])
                    stack.pop()
                for p in lst:
                    imp(p)
                defined = [t.name for t in seq]
                ill = any(t.extends and t.extends not in defined[:i] for i, t in enumerate(seq))
                return order, seq, ill, kinds

            for top in tops:
                order, seq, ill, kinds = closure(top)
                items = [M.Sect("*", "a", attribute="abs", multi=True)]
                if not ill:
                    items += [M.Sect("*", t.name, attribute="s_" + t.name, multi=True) for t in seq]
                composed = M.render(M.Schema(types=(M.AType("a"),), items=tuple(items),
                                             imports=tuple(rn[p] for p in top), import_pos=1))
                mid = {"feature": "import-cycles", "schema_imports": list(top), "imports_of": {p: list(deps[p]) for p in CY_PK},
                       "types_first": [p for p in CY_PK if tfirst[p]], "composed": composed, "components": files}
                sch_c, err_c = load_or_error(composed)
                acc.ev()
                acc.states += 1
                for k in kinds:
                    acc.cls("cycles:" + k)
                if kinds & {"component-imports-itself", "back-edge-to-a-component-in-progress"} and \
                        any(tfirst[p] and deps[p] for p in order):
                    acc.cls("cycles:back-edge-and-types-written-before-the-imports")
                if ill:
                    if sch_c is not None or isinstance(err_c, dict):
                        acc.violation("import-order-makes-type-undefined-but-accepted", mid, err_c or "accepted",
                                      "SchemaError", tags={"kind": "schema-acceptance", "feature": "import-cycles"})
                    else:
                        acc.cls("both-refused")
                    continue
                k_top = tuple(t.name for t in seq)
                ex_xml, st_e, texts, probes = expected(k_top, k_top, items)
                if sch_c is None:
                    acc.violation("schema-acceptance-differs", dict(mid, expanded=ex_xml), ["composed", err_c],
                                  ["expanded", "accepted"], tags={"kind": "schema-acceptance", "feature": "import-cycles"})
                    continue
                acc.cls("both-accepted")
                if kinds & {"component-imports-itself", "back-edge-to-a-component-in-progress"}:
                    acc.cls("cycles:accepted-schema-with-a-back-edge")
                st_c = struct(sch_c)
                if st_c != st_e:
                    acc.violation("composed-schema-structure-differs-from-expansion", dict(mid, expanded=ex_xml),
                                  ["composed"] + struct_diff(st_c, st_e)[:1], ["expanded"] + struct_diff(st_c, st_e)[1:],
                                  tags={"kind": "structure", "feature": "import-cycles"})
                    continue
                reads = [("", (), ex_xml, t) for t in texts]
                # '%import P' in front of a text: one more entry into the graph, from the configuration
                for p in CY_PK:
                    o2, seq2, ill2, kinds2 = closure(tuple(top) + (p,))
                    line = "%%import %s\n" % rn[p]
                    if ill2:
                        reads.append((line, kinds2, None, ((), "", ("R",), "R")))
                        continue
                    ex2, _, _, probes2 = expected(k_top, tuple(t.name for t in seq2), items)
                    reads += [(line, kinds2, ex2, t) for t in probes2]
                for line, kinds2, exx, (hist, body, oe, verdict) in reads:
                    oc = outcome(sch_c, line + body)
                    acc.ev()
                    acc.transitions += 1
                    if hist or line:
                        acc.nt()
                    acc.cls("text:%s" % oe[0])
                    if line:
                        acc.cls("cycles:text-with-%import")
                        if (set(kinds2) - set(kinds)) & {"component-imports-itself", "back-edge-to-a-component-in-progress"}:
                            acc.cls("cycles:%import-enters-a-cycle-the-schema-had-not-entered")
                    acc.sample(lambda: {"feature": "import-cycles", "schema_imports": list(top),
                                        "imports_of": {p: list(deps[p]) for p in CY_PK},
                                        "types_first": [p for p in CY_PK if tfirst[p]],
                                        "text": line + body, "outcome": oe[0]})
                    if verdict == "U":
                        acc.cls("text:unspecified")
                        continue
                    if oc != oe:
                        acc.violation("composed-differs-from-expansion",
                                      dict(mid, expanded=exx, text=line + body, body=body),
                                      ["composed", oc[0], repr(oc[1:])[:300]], ["expanded", oe[0], repr(oe[1:])[:300]],
                                      tags={"kind": "differs", "feature": "import-cycles", "composed": oc[0],
                                            "expanded": oe[0], "percent_import": bool(line)})
                        break
    finally:
        P.close()
    return acc


# ---------------------------------------------------------------------------
# (j) schema-level extends: names that key types tell apart, in every document

L = ()
SE_SHAPES = ((L,), (L, L), ((L,),), (L, L, L), ((L,), L), (L, (L,)), ((L, L),), (((L,),),))
SE_CONFLICT = "CONFLICT"


def se_docs(shape):
    """-> (documents in preorder: {id, bases}, ids of the top schema's bases)"""
    docs = []

    def walk(node):
        d = {"id": len(docs) + 1, "bases": []}
        docs.append(d)
        for c in node:
            d["bases"].append(walk(c))
        return d["id"]
    return docs, [walk(n) for n in shape]


def se_space(tier):
    """(shape index, key type per base document, key type of the extending schema, document that carries the '+'
    key: 0 = the extending schema)"""
    out = []
    for si, shape in enumerate(SE_SHAPES):
        n = len(se_docs(shape)[0])
        for kts in itertools.product((None, "identifier"), repeat=n):
            for own in (None, "identifier", "basic-key"):
                for wild in range(n + 1):
                    out.append((si, kts, own, wild))
    return out


def se_effective(docs, top_bases, kts, own):
    """effective key type per document id (0 = the extending schema): its own attribute, else the one its bases
    agree on, else basic-key; CONFLICT when the bases disagree (or one of them is in conflict itself)"""
    eff = {}

    def of(bases, attr):
        got = [eff[b] for b in bases]
        if SE_CONFLICT in got:
            return SE_CONFLICT
        if attr:
            return attr
        if not got:
            return "basic-key"
        return got[0] if len(set(got)) == 1 else SE_CONFLICT
    for d in reversed(docs):                      # preorder reversed: bases before the documents that extend them
        eff[d["id"]] = of(d["bases"], kts[d["id"] - 1])
    eff[0] = of(top_bases, own)
    return eff


def shard_extends_names(arg, acc):
    lo, hi, tier = arg
    space = se_space(tier)
    depth = 1 if tier == "quick" else 2
    d0 = tempfile.mkdtemp(prefix="vz-c11-", dir="/dev/shm" if os.path.isdir("/dev/shm") else None)
    try:
        for idx in range(lo, min(hi, len(space))):
            si, kts, own, wild = space[idx]
            docs, top_bases = se_docs(SE_SHAPES[si])
            eff = se_effective(docs, top_bases, kts, own)
            final = eff[0]

            def content(i):
                """types and top-level items of document i.  Names with capitals where the document's effective
                key type is the one of the whole schema; where it is not, what the merged schema says is not fixed
                by the statement (the same region as a derived section type that changes the key type), and the
                document only carries names every key type leaves alone."""
                mixed = eff[i] == final
                nm = (lambda s: s) if mixed else (lambda s: s.lower())
                t = M.SType("bt%d" % i, (M.Key("Bk", default="b%d" % i),))
                its = [M.Key(nm("Key%d" % i), default="v%d" % i),
                       M.Sect("*", "bt%d" % i, attribute="bs%d" % i, multi=True)]
                if wild == i:
                    its.append(M.Key("+", attribute="w", default=((nm("Da"), "x"), ("db", "y"))))
                return t, tuple(its), mixed
            d = os.path.join(d0, "s%d" % idx)
            os.makedirs(d)
            files = {}
            all_types, all_items = [], []
            n_mixed = 0
            for doc in docs:
                t, its, mixed = content(doc["id"])
                n_mixed += mixed
                files["d%d.xml" % doc["id"]] = M.render(M.Schema(
                    types=(t,), items=its, keytype=kts[doc["id"] - 1],
                    extends=tuple("d%d.xml" % b for b in doc["bases"])))
                all_types.append(t)
                all_items += list(its)
            t0, its0, _ = content(0)
            composed = M.Schema(types=(t0,), items=its0, keytype=own, extends=tuple("d%d.xml" % b for b in top_bases))
            files["htop.xml"] = M.render(composed)
            for fn, xml in files.items():
                with open(os.path.join(d, fn), "w") as f:
                    f.write(xml)
            loader = file_loader(os.path.join(d, "htop.xml"))
            mid = {"feature": "schema-extends-names", "shape": repr(SE_SHAPES[si]), "base_keytypes": list(kts),
                   "own_keytype": own, "wildcard_in_document": wild, "files": files}
            acc.cls("extends-names:shape-%d" % si)
            if final == SE_CONFLICT:
                sch, err = loader()
                acc.ev()
                acc.states += 1
                if sch is not None or isinstance(err, dict):
                    acc.violation("conflicting-base-keytypes-not-refused", dict(mid, composed=files["htop.xml"]),
                                  err or "accepted", "SchemaError",
                                  tags={"kind": "schema-acceptance", "feature": "schema-extends-names"})
                else:
                    acc.cls("both-refused")
                    acc.cls("extends-names:conflicting-key-types-refused")
                shutil.rmtree(d, ignore_errors=True)
                continue
            merged = M.Schema(types=tuple(all_types) + (t0,), items=tuple(all_items) + its0,
                              keytype=None if final == "basic-key" else final)
            leaves = [doc["id"] for doc in docs if not doc["bases"]]
            if final == "identifier":
                acc.cls("extends-names:case-preserving-schema")
                if own is None:
                    acc.cls("extends-names:case-preserving-key-type-comes-from-the-bases-only")
                if wild in leaves:
                    acc.cls("extends-names:capitalised-wildcard-defaults-in-a-base-without-bases")
            if any(eff[i] != final for i in eff):
                acc.cls("extends-names:a-document-under-another-key-type(lower-case-names-there)")
            acc.cls("extends-names:documents-with-capitals-%d" % n_mixed)
            compare(files["htop.xml"], X.expand(merged), acc, mid, depth, "schema-extends-names",
                    composed_loader=loader, top_unordered=True)
            shutil.rmtree(d, ignore_errors=True)
    finally:
        shutil.rmtree(d0, ignore_errors=True)
    return acc


def import_combos(tier):
    out = []
    for pb_imp in ((), ("pa",)):
        for pc_imp in ((), ("pa",), ("pb",), ("pa", "pb"), ("pb", "pa")):
            for n in (1, 2, 3):
                for top in itertools.product(("pa", "pb", "pc"), repeat=n):
                    out.append((pb_imp, pc_imp, top))
    return out


def run(tier):
    nch = len(chains(tier))
    npr = len(prefix_schemas(tier))
    nim = len(import_combos(tier))
    nsp = len(spelling_space(tier))
    ntop = len(top_lists(tier))
    nho = len(homonym_space(tier))
    hb = history_bounds(tier)
    nhist = len(history_worlds()) * len(hb[0]) * (len(hb[1]) * len(hb[2]) + (len(hb[3]) ** 3 if hb[3] else 0))
    nnt_sp, nnt = len(nt_space(tier)), nt_count(tier)
    ncy, ncyt = len(cy_worlds(tier)), len(cy_tops())
    nse = len(se_space(tier))
    w5 = ("Wave 5 - (h) names already in use: the inherited children have attribute != key name (Key 'a-b' -> a_b [under "
          "identifier: 'Ab' -> ab], Key k attribute=v, '*' section and '*' multisection (no key at all), section n "
          "attribute=sv, MultiKey 'm-k' [Mk], the '+' key, and a plain key as control): one of them (quick: or every "
          "unordered pair, form L2; thorough: every ordered pair, every form) x container key type {default, identifier} x "
          "form {L2: nd extends nb; L3-far: nd extends nm extends nb, the children in nb; L3-near: the children in nm; X: the "
          "children at the top of a base schema FILE, the added one at the top of the schema that extends it} x the ONE "
          "child the derived type / extending schema adds = kind {key, section%s} x key name over the pool {every key "
          "name and every attribute name the inherited children occupy, the key names in capitals, a fresh name} x "
          "attribute {computed from the name, or any identifier of the pool}, plus {'+' key, '*' section%s} x attribute: "
          "%d bases -> %d schemas, each against its written-out expansion (refused together - a clash of key names or of "
          "attribute names - or accepted together, then structure and every text of the depth-1 search inside <nd> / at "
          "the top).  (i) import graphs with back edges: packages pa, pb, pc each import every list of length <= 2 without "
          "repetition over ALL three packages, the package itself included (cycles, self-imports, back edges next to "
          "diamonds) x per package its <import> elements before or after its own types%s: %d worlds x the schema's own "
          "import lists of length 1..2 (%d); expansion = every component's types written out once where its FIRST import "
          "puts them, a component counting as imported from the moment its import starts (refusal when that uses a type "
          "before its definition); acceptance, structure, every text of the depth-1 search, and for every package P the "
          "texts '', <ta/>, <tb/>, <tc/> behind a '%%import P' line against the expansion of (schema, that line).  "
          "(j) schema-level extends with names that key types tell apart: every tree of <= 3 base documents (8 shapes: flat, "
          "chains, mixed) x key type {none, identifier} per base document x {none, identifier, basic-key} on the extending "
          "schema x the document that carries a '+' key with default keys 'Da', 'db': %d set-ups; every document has a key "
          "'Key<i>', a section type with key 'Bk' and its slot; names are capitalised in every document whose effective key "
          "type is the one of the whole schema (elsewhere lower-case: what the merged schema is when a base reads its own "
          "names under another key type is not fixed by the statement); merged schema = all of it in one document under the "
          "effective key type, refusal when bases disagree and the extender names none; search depth %d.  "
          % (", multikey" if tier != "quick" else "", ", '*' multisection, '+' section" if tier != "quick" else "",
             nnt_sp, nnt, " (quick: per package when no list is longer than 1, else all alike)" if tier == "quick" else "",
             ncy, ncyt, nse, 1 if tier == "quick" else 2))
    run = core.Run(
        "C11", tier, "model_checking",
        rule="%d extends chains (length 1..3; every item kind per link; key type / datatype / implements overridden at "
             "every subset of links on fixed item combinations; wildcard defaults that collide only under a derived key "
             "type), %d prefix schemas (schema prefix x section-type prefix, relative and absolute, x every relative / "
             "absolute spelling of a section datatype, a key datatype, a key type and a schema-level key datatype), "
             "schema-level extends of 1..3 base files x 5 key-type situations and extends chains of depth 2..3 with key type / datatype set at one level, %d component import graphs (3 packages: "
             "who imports whom x every import list of length 1..3 incl. repeats): each composed schema and its "
             "expansion are loaded and the whole breadth-first search (C01 engine, depth 3; 2 for imports in quick) of "
             "the expanded schema is replayed on both; the two schema objects must also have the same structure (types, key "
             "types, datatypes, ordered items with their defaults, implementers).  Import-reference spellings: a component "
             "is a (package, file) pair; 4 components in 3 sub-packages of one root package (pa has component.xml and "
             "extra.xml); pb imports [] or [A], pc imports every list without repetition of length <= 2 over {A, B, X}, the "
             "schema imports every list of length 1..%d over {A, B, C, X}; EVERY edge carries EVERY spelling of its "
             "component out of {%s} for a default file (abs = absolute package, file omitted; file = file='component.xml' "
             "written out; rel = '.pkg' under a prefix naming the root package; relfile = both) and {abs, rel} for extra.xml: %d package "
             "sets x %d schema import lists = %d composed schemas, each held against the expansion of its graph "
             "(acceptance, structure, every text of the BFS to depth %d), and every text of depth <= %d also with a "
             "'%%import P' line in front for every package P whose default component the schema already has "
             "(thorough: lists of length 3 use the quick alphabet and text depth 1 / 0).  "
             "Homonyms (wave 3): two module trees P, P.inner, P.inner.inner (vz.harness.c11n, c11o) publish the leaf names "
             "conv (value datatype), key (key type), sect (section datatype) with a different, visible behaviour at each "
             "of the 6 levels; %d schemas = schema prefix in {c11n, c11n.inner} x section-type prefixes in {none, '.inner', "
             "c11n, c11o} x derived-type prefix in {none, '.inner', c11o} x ONE SPELLING PATTERN PER SITE out of {'.leaf', "
             "'.inner.leaf', absolute c11n.inner.leaf} for the sites schema element + top-level key / section type h1 / "
             "section type h2 / type hd derived from h1 (patterns that name nothing are left out) x the top-level key "
             "written after or before the types; quick: sites {schema, h1, hd} (both orders) and {schema, h1, h2}, "
             "thorough: all four sites; plus h2 defined in another DOCUMENT - an imported component, and a base schema file "
             "that the schema extends - with a prefix of its own (c11n or c11o.inner; h2 prefix none / '.inner') or with "
             "none (h2 prefix none / c11o; a relative name that has no enclosing prefix in ITS document names nothing: "
             "the schema must be refused whatever the prefix of the importing document); each against its expansion: acceptance, structure, BFS to depth %d.  "
             "Histories (wave 3): 10 package worlds (pb imports [] / [pa]; pc imports 5 lists) x schema import lists of "
             "length <= %d over {pa, pb, pc}: %d histories (less those of schemas refused by themselves; classes history:pairs / history:triples), each on a FRESH composed schema object: every ordered pair of "
             "%%import lists (length <= 2 over {pa, pb, pc}, repeats included) and every triple of lists of length <= 1; the earlier reads have an empty body, the "
             "last read carries every text of the depth-1 BFS of ITS expansion%s and '<t/>' for every type of the three packages that is not part of it; every read must equal the expansion of "
             "(schema, the %%import lines of that text): types of components not yet present written out in place once in "
             "first-import order, refusal when that uses a type before its definition.  "
             "states = schemas + BFS states, transitions = texts.  "
             "Non-trivial = text with >= 1 key or section event (every type here exists through composition); in a history: a "
             "read made after a read that %%import'ed a component the schema has not got."
             % (nch, npr, nim, 2 if tier == "quick" else 3, ", ".join(SPELL[tier][None]), nsp, ntop, nsp * ntop,
                1 if tier == "quick" else 2, 0 if tier == "quick" else 1,
                nho, 1 if tier == "quick" else 2, 1 if tier == "quick" else 2, nhist,
                " (section names none / n1)" if tier == "quick" else "") + "  " + w5,
        bounds={"chains": nch, "prefix_schemas": npr, "import_graphs": nim, "depth": 3,
                "import_spelling_package_sets": nsp, "import_spelling_schema_import_lists": ntop,
                "import_spelling_schemas": nsp * ntop, "import_spelling_alphabet": list(SPELL[tier][None]),
                "import_spelling_text_depth": 1 if tier == "quick" else 2,
                "homonym_schemas": nho, "homonym_levels": list(LEVELS), "homonym_spelling_patterns": list(H_PATTERNS),
                "homonym_text_depth": 1 if tier == "quick" else 2,
                "import_histories": nhist, "history_schema_import_lists": len(hb[0]),
                "history_first_read_lists": len(hb[1]), "history_last_read_lists": len(hb[2]),
                "history_triples_over_lists": len(hb[3]) if hb[3] else 0, "history_text_depth": 1,
                "names_in_use_bases": nnt_sp, "names_in_use_schemas": nnt, "names_in_use_forms": list(NT_FORMS),
                "names_in_use_inherited_alphabet": [l for l, _ in nt_base_alphabet(None)],
                "names_in_use_inherited_children": "1, or 2 (quick: unordered pairs in form L2; thorough: ordered pairs in every form)",
                "import_cycle_worlds": ncy, "import_cycle_schema_import_lists": ncyt,
                "import_cycle_schemas": ncy * ncyt, "import_cycle_package_import_list_length": 2,
                "schema_extends_names_setups": nse, "schema_extends_names_shapes": [repr(x) for x in SE_SHAPES],
                "schema_extends_names_text_depth": 1 if tier == "quick" else 2},
        assumptions=["expansion rules of vz/gen/expand.py written from the statement",
                     "merge order of base schemas is not fixed by the statement: top-level attribute order is not compared there",
                     "not generated (unspecified): a derived key type under which declared base key names are not fixed points"])
    shards = []
    for kind, n in (("chain", nch), ("prefix", npr)):
        step = max(1, (n + 31) // 32)
        shards += [(kind, lo, lo + step, tier) for lo in range(0, n, step)]
    core.pmap(shard_models, shards, run.acc, shard_budget=3000.0)
    core.pmap(shard_schema_extends, [(nb, v, tier) for nb in (1, 2, 3)
                                     for v in ("none", "same", "conflict", "conflict-explicit", "own-only")] +
              [(nb, v, tier) for nb in (2, 3) for v in ("chain-root", "chain-mid", "chain-none")], run.acc)
    step = max(1, (nim + 31) // 32)
    core.pmap(shard_imports, [(lo, lo + step, tier) for lo in range(0, nim, step)], run.acc)
    step = max(1, (nsp + 63) // 64)
    core.pmap(shard_spellings, [(lo, lo + step, tier) for lo in range(0, nsp, step)], run.acc, shard_budget=3000.0)
    step = max(1, (nho + 63) // 64)
    core.pmap(shard_homonyms, [(lo, lo + step, tier) for lo in range(0, nho, step)], run.acc, shard_budget=3000.0)
    core.pmap(shard_histories, [(w, top, tier) for w in history_worlds() for top in hb[0]], run.acc,
              shard_budget=3000.0)
    step = max(1, (nnt_sp + 63) // 64)
    core.pmap(shard_names, [(lo, lo + step, tier) for lo in range(0, nnt_sp, step)], run.acc, shard_budget=3000.0)
    step = max(1, (ncy + 127) // 128)
    core.pmap(shard_cycles, [(lo, lo + step, tier) for lo in range(0, ncy, step)], run.acc, shard_budget=3000.0)
    step = max(1, (nse + 63) // 64)
    core.pmap(shard_extends_names, [(lo, lo + step, tier) for lo in range(0, nse, step)], run.acc, shard_budget=3000.0)
    a = run.acc
    a.traces = a.transitions
    c = a.classes
    run.require(c.get("names:same-attribute-different-key-name:both-refused", 0) > 500,
                "names axis: few derived types add a child that wants the attribute of an inherited child with another key name")
    run.require(c.get("names:attribute-equals-an-inherited-key-name:both-accepted", 0) > 100,
                "names axis: few derived types add a child whose attribute is the KEY name of an inherited child "
                "that is stored under another attribute (no clash)")
    run.require(c.get("names:key-name-equals-an-inherited-attribute:both-accepted", 0) > 100,
                "names axis: few derived types add a child whose key name is the ATTRIBUTE of an inherited child (no clash)")
    run.require(c.get("names:same-key-name:both-refused", 0) > 500, "names axis: few key-name clashes")
    run.require(all(c.get("names:form-" + f, 0) > 200 for f in NT_FORMS), "names axis: a form was hardly used")
    run.require(a.extra.get("names: the expansion's acceptance is not what the documented naming rule says", 0) == 0,
                "names axis: the classification of clashes (reference view of key / attribute names) disagrees with the "
                "acceptance of the written-out expansion")
    run.require(c.get("cycles:accepted-schema-with-a-back-edge", 0) > 1000,
                "cycle axis: few accepted schemas whose import graph leads back to a component in progress")
    run.require(c.get("cycles:component-imports-itself", 0) > 500, "cycle axis: few self-imports")
    run.require(c.get("cycles:back-edge-to-a-component-in-progress", 0) > 500, "cycle axis: few back edges")
    run.require(c.get("cycles:back-edge-and-types-written-before-the-imports", 0) > 500,
                "cycle axis: few back edges into components that write their types before their imports")
    run.require(c.get("cycles:%import-enters-a-cycle-the-schema-had-not-entered", 0) > 500,
                "cycle axis: few texts whose %import line enters a cycle")
    run.require(c.get("extends-names:case-preserving-key-type-comes-from-the-bases-only", 0) > 50,
                "extends-names axis: few set-ups whose case-preserving key type is named by base documents only")
    run.require(c.get("extends-names:capitalised-wildcard-defaults-in-a-base-without-bases", 0) > 50,
                "extends-names axis: few set-ups with capitalised wildcard defaults in a leaf base document")
    run.require(c.get("extends-names:conflicting-key-types-refused", 0) > 30,
                "extends-names axis: few set-ups with conflicting base key types")
    run.require(sum(v for k, v in c.items() if k.startswith("extends-names:documents-with-capitals-")
                    and int(k.rsplit("-", 1)[1]) >= 2) > 100,
                "extends-names axis: few set-ups with capitalised names in two or more base documents")
    run.require(c.get("homonyms:one-relative-spelling-under-two-effective-prefixes", 0) > 300,
                "homonym axis: few schemas write one relative spelling under two different effective prefixes")
    run.require(c.get("homonyms:one-function-under-two-relative-spellings", 0) > 100,
                "homonym axis: few schemas name one function by two relative spellings")
    run.require(c.get("homonyms:top-level-key-before-the-types", 0) > 100,
                "homonym axis: few schemas with the top-level key in front of the section types")
    run.require(c.get("homonyms:relative-name-in-a-document-without-prefix", 0) > 50,
                "homonym axis: few schemas whose other document has no prefix but relative names")
    run.require(c.get("homonyms:family-K", 0) > 50, "homonym axis: few schemas with a prefixed component")
    run.require(c.get("homonyms:family-X", 0) > 50, "homonym axis: few schemas extending a prefixed base schema file")
    run.require(sum(v for k, v in c.items() if k.startswith("homonyms:levels-visible-in-trees-")
                    and int(k.rsplit("-", 1)[1]) >= 2) > 300,
                "homonym axis: few schemas whose accepted texts show conversions of two or more levels")
    run.require(c.get("history:last-read-imports-again-what-an-earlier-read-imported", 0) > 200,
                "history axis: few histories import a component again that an earlier read imported")
    run.require(c.get("history:last-read-reaches-an-earlier-read's-component-through-another-package", 0) > 50,
                "history axis: few histories reach an earlier read's component through another package")
    run.require(c.get("history:last-read-names-a-type-only-an-earlier-read-imported", 0) > 200,
                "history axis: few histories whose last read names a type that only an earlier read imported")
    run.require(c.get("history:last-read-after-a-refused-read", 0) > 20,
                "history axis: few histories continue after a read that had to be refused")
    run.require(c.get("imports:same-component-spelled-differently", 0) > 1000,
                "import-spelling axis: few schemas reach one component under two different spellings")
    run.require(c.get("imports:two-files-of-one-package", 0) > 1000,
                "import-spelling axis: few schemas import two component files of one package")
    run.require(c.get("imports:text-with-%import-of-a-present-component", 0) > 1000,
                "import-spelling axis: few texts with a %import line naming a component the schema already has")
    run.require(all(c.get("imports:uses-" + sp, 0) > 100 for sp in SPELL[tier][None]),
                "import-spelling axis: a spelling of the alphabet was hardly used")
    run.require(a.classes.get("both-accepted", 0) > 100, "few composed schemas accepted")
    run.require(a.classes.get("both-refused", 0) >= 3, "no composed schema refused together with its expansion")
    run.require(a.classes.get("text:A", 0) > 1000, "few accepted texts")
    return run


@contextlib.contextmanager
def rebuilt_packages(files):
    """{package name: text of its component.xml} -> importable packages on a scratch sys.path entry"""
    base = tempfile.mkdtemp(prefix="vz-c11-", dir="/dev/shm" if os.path.isdir("/dev/shm") else None)
    sys.path.insert(0, base)
    try:
        for name, xml in files.items():
            os.makedirs(os.path.join(base, name))
            open(os.path.join(base, name, "__init__.py"), "w").close()
            with open(os.path.join(base, name, "component.xml"), "w") as f:
                f.write(xml)
            print("--- %s/component.xml\n%s" % (name, xml))
        importlib.invalidate_caches()
        yield
    finally:
        try:
            sys.path.remove(base)
        except ValueError:
            pass
        for k in [k for k in sys.modules if k.split(".")[0] in files]:
            del sys.modules[k]
        importlib.invalidate_caches()
        shutil.rmtree(base, ignore_errors=True)


def replay_pair(case):
    """composed schema against its expansion: acceptance, structure, the text (twice)"""
    rc = 0
    for _ in range(2):
        sc, ec = load_or_error(case["composed"])
        se, ee = load_or_error(case["expanded"])
        print("composed schema:", ec or "accepted", "; expanded schema:", ee or "accepted")
        if (sc is None) != (se is None):
            rc = 1
        elif sc is not None:
            if struct(sc) != struct(se):
                print("structure differs:", struct_diff(struct(sc), struct(se)))
                rc = 1
            if "text" in case:
                a, b = outcome(sc, case["text"]), outcome(se, case["text"])
                print("text:\n" + case["text"] + "composed:", a[0], repr(a[1:])[:300], "\nexpanded:", b[0], repr(b[1:])[:300])
                if a != b:
                    rc = 1
    return rc


def replay_files(case):
    """a schema that extends base files: the files are written out again and the schema is loaded from its path"""
    import ZConfig
    d = tempfile.mkdtemp(prefix="vz-c11-", dir="/dev/shm" if os.path.isdir("/dev/shm") else None)
    rc = 0
    try:
        for fn, xml in case["files"].items():
            with open(os.path.join(d, fn), "w") as f:
                f.write(xml)
            print("--- %s\n%s" % (fn, xml))
        for _ in range(2):
            try:
                sc, ec = ZConfig.loadSchema(os.path.join(d, "htop.xml")), None
            except Exception as e:
                sc, ec = None, core.exc_desc(e)
            se, ee = load_or_error(case["expanded"])
            print("composed schema:", ec or "accepted", "; expanded schema:", ee or "accepted")
            if (sc is None) != (se is None):
                rc = 1
            elif sc is not None:
                if struct(sc, True) != struct(se, True):
                    print("structure differs:", struct_diff(struct(sc, True), struct(se, True)))
                    rc = 1
                if "text" in case:
                    a, b = unordered_top(outcome(sc, case["text"])), unordered_top(outcome(se, case["text"]))
                    print("text:\n" + case["text"] + "composed:", a[0], repr(a[1:])[:300], "\nexpanded:", b[0], repr(b[1:])[:300])
                    if a != b:
                        rc = 1
    finally:
        shutil.rmtree(d, ignore_errors=True)
    return rc


def replay_history(case):
    """the reads of the history one after the other against ONE fresh composed schema object; the last one is
    held against the expansion of (schema, its own %import lines) - twice"""
    rc = 0
    with rebuilt_packages(case["components"]):
        print("--- composed schema\n" + case["composed"])
        for _ in range(2):
            sc, ec = load_or_error(case["composed"])
            print("composed schema:", ec or "accepted")
            if sc is None:
                rc = 1
                continue
            if "text" not in case:
                rc = 1          # the schema had to be refused
                continue
            for n, t in enumerate(case["earlier_reads"], 1):
                o = outcome(sc, t)
                print("read %d: %r -> %s" % (n, t, o[0]))
            got = outcome(sc, case["text"])
            if case.get("expanded"):
                se, ee = load_or_error(case["expanded"])
                want = outcome(se, case["body"])
            else:
                want = ("R",)
            print("read %d: %r\nsame schema object: %s %s\nexpansion, text without the lines: %s %s" % (
                len(case["earlier_reads"]) + 1, case["text"], got[0], repr(got[1:])[:300], want[0], repr(want[1:])[:300]))
            if got != want:
                rc = 1
    return rc


def replay(body):
    case = body["case"]
    if case.get("feature") == "import-spelling":
        return replay_spelling(case)
    if case.get("feature") == "import-history":
        return replay_history(case)
    if case.get("feature") == "homonyms" and "component" in case:
        name = re.search(r'<import package="([^"]+)"/>', case["composed"]).group(1)
        with rebuilt_packages({name: case["component"]}):
            return replay_pair(case)
    if case.get("feature") in ("homonyms", "names-in-use", "schema-extends-names") and "files" in case:
        return replay_files(case)
    if case.get("feature") == "import-cycles":
        return replay_cycles(case)
    if case.get("feature") in ("schema-extends", "component-imports"):
        print("cases with base files / generated packages are re-checked by ./check C11")
        return 1
    return replay_pair(case)


def replay_cycles(case):
    """the generated packages are rebuilt from the recorded component files; the composed schema against the
    expansion: acceptance, structure, the text (with its %import line) against the expansion's reading of the body"""
    rc = 0
    with rebuilt_packages(case["components"]):
        print("--- composed schema\n" + case["composed"])
        for _ in range(2):
            sc, ec = load_or_error(case["composed"])
            print("composed schema:", ec or "accepted")
            if not case.get("expanded"):
                # the expansion is no schema (a type used before its definition) or the read had to be refused
                if "text" not in case:
                    rc = max(rc, 1 if sc is not None or isinstance(ec, dict) else 0)
                elif sc is None:
                    rc = 1
                else:
                    got = outcome(sc, case["text"])
                    print("text: %r -> %s (must be refused)" % (case["text"], got[0]))
                    rc = max(rc, 0 if got == ("R",) else 1)
                continue
            se, ee = load_or_error(case["expanded"])
            print("expanded schema:", ee or "accepted")
            if sc is None or se is None:
                rc = 1
                continue
            if "text" not in case:
                if struct(sc) != struct(se):
                    print("structure differs:", struct_diff(struct(sc), struct(se)))
                    rc = 1
                continue
            a, b = outcome(sc, case["text"]), outcome(se, case["body"])
            print("text: %r\ncomposed: %s %s\nexpanded (body %r): %s %s" % (
                case["text"], a[0], repr(a[1:])[:300], case["body"], b[0], repr(b[1:])[:300]))
            if a != b:
                rc = 1
    return rc


def replay_spelling(case):
    """Rebuild the generated packages from the recorded component files and hold the composed schema against
    the expansion again (twice)."""
    base = tempfile.mkdtemp(prefix="vz-c11-", dir="/dev/shm" if os.path.isdir("/dev/shm") else None)
    root = case["root"]
    rc = 0
    sys.path.insert(0, base)
    try:
        os.makedirs(os.path.join(base, root))
        open(os.path.join(base, root, "__init__.py"), "w").close()
        for target, content in case["components"].items():
            pkg, fn = TARGETS[target]
            d = os.path.join(base, root, pkg)
            os.makedirs(d, exist_ok=True)
            open(os.path.join(d, "__init__.py"), "w").close()
            with open(os.path.join(d, fn or "component.xml"), "w") as f:
                f.write(content)
            print("--- %s/%s/%s\n%s" % (root, pkg, fn or "component.xml", content))
        print("--- composed schema\n" + case["composed"])
        for _ in range(2):
            sc, ec = load_or_error(case["composed"])
            print("composed schema:", ec or "accepted")
            if "expanded" not in case:
                if sc is not None:
                    rc = 1
                continue
            se, ee = load_or_error(case["expanded"])
            print("expanded schema:", ee or "accepted")
            if (sc is None) != (se is None):
                rc = 1
            elif sc is not None:
                if struct(sc) != struct(se):
                    print("structure differs:", struct_diff(struct(sc), struct(se)))
                    rc = 1
                if "text" in case:
                    plain = "".join(l for l in case["text"].splitlines(True) if not l.startswith("%import "))
                    a, b = outcome(sc, case["text"]), outcome(se, plain)
                    print("text:\n" + case["text"] + "composed:", a[0], repr(a[1:])[:200], "\nexpanded:", b[0], repr(b[1:])[:200])
                    if a != b:
                        rc = 1
    finally:
        try:
            sys.path.remove(base)
        except ValueError:
            pass
        for k in [k for k in sys.modules if k == root or k.startswith(root + ".")]:
            del sys.modules[k]
        importlib.invalidate_caches()
        shutil.rmtree(base, ignore_errors=True)
    return rc
