#!/usr/bin/env python3
"""section9.py -> markdown for DESIGN.md section 9 (detection record of the independently seeded changes).

Sources: seeded/<id>/meta.json (result of the property's quick check when the change was filed),
tools/notes/detection-seeded-A-H.jsonl (all A-H changes re-run against the checks as they stood at the start of
session 3), tools/notes/detection_after.json (changes caught after their check was strengthened, with the place
where the rc=1 line is recorded), tools/notes/detection_outside.json (changes that stay undetected by design)."""
import glob, json, os, collections
R = "/verif"
later = {}
p = R + "/tools/notes/detection-seeded-A-H.jsonl"
if os.path.exists(p):
    for l in open(p):
        d = json.loads(l)
        later[d["mutant"].split("/")[1]] = d
after = json.load(open(R + "/tools/notes/detection_after.json"))
outside = json.load(open(R + "/tools/notes/detection_outside.json"))
WAVE = {"A": 1, "B": 1, "C": 2, "D": 2, "E": 3, "F": 3, "G": 4, "H": 4, "I": 5, "J": 5, "K": 6, "L": 6}
rows = []
tot = collections.Counter()
for d in sorted(glob.glob(R + "/seeded/*/")):
    sid = os.path.basename(d.rstrip("/"))
    meta = json.load(open(d + "meta.json"))
    letter = sid.split("-")[1]
    wave = WAVE[letter] if not sid.startswith("C13") else {"A": 1, "B": 1, "C": 2, "D": 2, "E": 3, "F": 3, "G": 5, "H": 5, "I": 6, "J": 6}[letter]
    title = ""
    n = d + "notes.md"
    if os.path.exists(n):
        title = open(n).readline().strip().lstrip("# ").strip()
        for pre in ("%s / change %s - " % (sid[:3], letter), "%s seed %s - " % (sid[:3], letter), "Seed %s (%s) - " % (letter, sid[:3]),
                    "%s / change %s: " % (sid[:3], letter)):
            if title.startswith(pre):
                title = title[len(pre):]
        title = title[:120]
    cr = meta.get("check_results_at_intake", {})
    at_intake = any(v.get("rc") == 1 for v in cr.values())
    kinds = sorted({k for v in cr.values() for k in v.get("kinds", [])})[:2]
    now = at_intake
    how = "when filed" if at_intake else ""
    if sid in later and any(c["rc"] == 1 for c in later[sid]["checks"].values()):
        if not now:
            how = "after strengthening (re-run of all A-H changes, session 3)"
        now = True
        if not kinds:
            kinds = later[sid].get("first_kinds", [])[:2]
    if sid in after:
        now, how = True, "after strengthening (" + after[sid] + ")"
    if sid in outside:
        now, how = False, "NOT detected, by design: " + outside[sid]
    elif not now:
        how = "NOT detected"
    tot[(wave, "caught when filed" if at_intake else ("caught after strengthening" if now else ("outside the statement" if sid in outside else "missed")))] += 1
    rows.append("| %s | %d | %s | %s | %s | %s |" % (sid, wave, title.replace("|", "/"), "yes" if at_intake else "no",
                                                 "yes" if now else "no", (how + ("; " + ", ".join(kinds) if kinds and now else "")).replace("|", "/")))
print("| change | wave | what it does (first line of its notes.md) | caught when filed | caught now | how / first violation kinds |")
print("|---|---|---|---|---|---|")
print("\n".join(rows))
print()
print("| wave | filed | caught when filed | caught after strengthening | outside the statement | still missed |")
print("|---|---|---|---|---|---|")
for w in sorted({k[0] for k in tot}):
    g = lambda s: tot[(w, s)]
    print("| %d | %d | %d | %d | %d | %d |" % (w, sum(v for k, v in tot.items() if k[0] == w), g("caught when filed"),
                                          g("caught after strengthening"), g("outside the statement"), g("missed")))
