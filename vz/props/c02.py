"""C02 - an accepted configuration yields exactly the typed value tree the schema defines.

Same exploration as C01 (engine E2) with the datatype axis opened up; on every
accepted node the canonical value tree of the returned object is compared with
the tree the reference model builds (vz.ref.match), plus invariants that
equality alone cannot show: no list/dict object occurs twice in one result,
exposed public attributes == getSectionAttributes(), and - after mutating every
container of the first result - a second load of the same text against the same
schema object still yields the reference tree (defaults are copied, not shared).
"""
from vz import core
from vz.engine import bfs
from vz.gen import schema as M
from vz.harness import load as H
from vz.harness.dt import Wrapped
from vz.ref import match as R

DATATYPES = ["string", "integer", "boolean", "float", "port-number", "byte-size", "time-interval",
             "identifier", "basic-key", "string-list", "inet-address", "null"]

GOOD = {dt: [t for t in M.VALUE_TOKENS[dt] if R.convert(dt, t) is not R.BAD][:2] for dt in DATATYPES}


def dt_menu(dt):
    g = GOOD[dt]
    d1, d2 = g[0], g[-1]
    return [
        ("key-%s" % dt, lambda p: M.Key("k%d" % p, dt)),
        ("key-%s-default" % dt, lambda p: M.Key("k%d" % p, dt, default=d1)),
        # a default that is present but empty / blank: still a default ('' converted), not "no default"
        ("key-%s-empty-default" % dt, lambda p: M.Key("k%d" % p, dt, default="")),
        ("key-%s-hyphen-attr" % dt, lambda p: M.Key("k-%d" % p, dt, default=d2)),
        ("key-%s-attribute" % dt, lambda p: M.Key("k%d" % p, dt, attribute="Attr%d" % p)),
        # attribute names are identifiers: a leading underscore is as good a name as any other
        ("key-%s-underscore-attribute" % dt, lambda p: M.Key("k%d" % p, dt, attribute="_u%d" % p, default=d1)),
        ("multikey-%s" % dt, lambda p: M.MultiKey("m%d" % p, dt)),
        ("multikey-%s-defaults" % dt, lambda p: M.MultiKey("m%d" % p, dt, defaults=(d1, d2, d1))),
        ("pluskey-%s" % dt, lambda p: M.Key("+", dt, attribute="w%d" % p)),
        ("pluskey-%s-defaults" % dt, lambda p: M.Key("+", dt, attribute="w%d" % p, default=(("Da", d1), ("db", d2)))),
        ("plusmultikey-%s" % dt, lambda p: M.MultiKey("+", dt, attribute="w%d" % p)),
        ("plusmultikey-%s-defaults" % dt,
         lambda p: M.MultiKey("+", dt, attribute="w%d" % p, defaults=(("Da", d1), ("db", d2), ("da", d2)))),
    ]


def family(tier):
    fam = []
    d1 = 4 if tier == "quick" else 5
    for dt in DATATYPES:
        for lab, f in dt_menu(dt):
            for p in (0, 1):
                fam.append(((lab,), (f(1),), p, None, {"l1_datatype": M.SECT_DT_WRAP}, d1))
    # the C01 item menu (string / integer, sections) with wrapping section datatypes
    sel = M.selections(2, full=(tier != "quick"))
    for lab, items in sel:
        fam.append((lab, items, 1, None, {"l1_datatype": M.SECT_DT_WRAP}, 3))
        if tier != "quick" or len(items) < 2:
            fam.append((lab, items, 0, None, {}, 3 if len(items) == 2 else 4))
            fam.append((lab, items, 2, None, {"l1_datatype": M.SECT_DT_REJECT}, 3))
    if tier != "quick":
        for dt in DATATYPES[2:]:
            for (la, fa) in dt_menu(dt):
                for (lb, fb) in dt_menu("integer") + [
                        ("multisection-star-l1", lambda p: M.Sect("*", "l1", attribute="s%d" % p, multi=True)),
                        ("section-star-a", lambda p: M.Sect("*", "a", attribute="s%d" % p))]:
                    a, b = fa(1), fb(2)
                    if M.is_wild(a) and M.is_wild(b):
                        continue
                    fam.append(((la, lb), (a, b), 1, None, {}, 3))
    for kt in ("identifier", "ipaddr-or-hostname"):
        for lab, items in M.selections(1):
            fam.append((lab, items, 1, kt, {}, 3))
    # abstract slots whose implementers carry DIFFERENT section datatypes (each member through ITS datatype)
    for lab, items in M.selections(1, full=True):
        if items and isinstance(items[0], M.Sect) and items[0].type == "a":
            for p in (0, 1):
                fam.append((lab, items, p, None, {"nimpl": 3, "impl_dt": True}, 4 if p == 0 else 3))
    # derived containers whose key type differs from the base's (both directions, and back again)
    for wl in ("pluskey-string-defaults", "plusmultikey-string-defaults", "pluskey-integer-defaults"):
        for base_kt, cut_kt in ((None, "identifier"), ("identifier", None), ("identifier", "basic-key"),
                                ("basic-key", "identifier"), (None, None)):
            if wl.startswith("pluskey") and base_kt == "identifier" and cut_kt != "identifier":
                pass        # 'Da'/'db' do not collide under basic-key, so the derived schema is legal
            for lab in ((), ("key-string-default",)):
                fam.append((lab, M.items_from_labels(lab), 1, None, {"derived": (wl, base_kt, cut_kt)}, 3))
    return fam


def build(member):
    lab, items, placement, kt, envkw, depth = member
    envkw = dict(envkw)
    derived = envkw.pop("derived", None)
    env = M.type_env(**(dict(envkw, keytype=kt) if kt else envkw))
    cut_dt = M.SECT_DT_WRAP if envkw.get("l1_datatype") == M.SECT_DT_WRAP else None
    if derived:
        # the container under test is DERIVED: it extends 'wb', which declares the wildcard item under
        # another key type; defaults must be re-keyed from the keys as written
        wild_label, base_kt, cut_kt = derived
        wb = M.SType("wb", M.items_from_labels([wild_label], [dt_menu(dt) for dt in DATATYPES]), keytype=base_kt)
        return M.place(items, placement, env + (wb,), cut_datatype=cut_dt, cut_extends="wb", cut_keytype=cut_kt)
    return M.place(items, placement, env, keytype=kt, cut_datatype=cut_dt)


def walk_containers(v, out, sections):
    if isinstance(v, Wrapped):
        walk_containers(v.inner, out, sections)
    elif hasattr(v, "getSectionAttributes"):
        sections.append(v)
        for a in v.getSectionAttributes():
            walk_containers(getattr(v, a), out, sections)
    elif isinstance(v, list):
        out.append(v)
        for x in v:
            walk_containers(x, out, sections)
    elif isinstance(v, dict):
        out.append(v)
        for x in v.values():
            walk_containers(x, out, sections)


SENTINEL = "<mutated-by-check>"


def check_case(S, sch, hist, text, acc, mid):
    obs = H.load(sch, text)
    ref = R.decide(S, hist)
    acc.ev()
    case = {"member": mid, "events": [list(e) for e in hist], "text": text}
    if obs[0] == "internal":
        d = core.exc_desc(obs[1])
        acc.cls("internal")
        acc.violation("internal-error", case, d, ref.verdict,
                      tags={"kind": "internal-error", "exc": d["class"], "where": d["where"]})
        return False
    o = "A" if obs[0] == "ok" else "R"
    if ref.verdict == "U":
        acc.cls("unspecified")
        return False
    if o != ref.verdict:
        acc.cls("verdict-disagreement(C01's)")
        acc.extra["verdict_disagreements"] += 1
        return False
    if o == "R":
        acc.cls("rejected")
        return True
    acc.cls("accepted")
    cfg = obs[1]
    t1 = H.tree(cfg)
    nontrivial = "text" in ref.origins and ("default" in ref.origins or "container" in ref.origins)
    if nontrivial:
        acc.nt()
    acc.sample(lambda: dict(case, tree=repr(t1)))
    if t1 != ref.tree:
        acc.violation("wrong-value-tree", case, repr(t1), repr(ref.tree),
                      tags={"kind": "wrong-value-tree", "feature": diff_feature(t1, ref.tree)})
        return False
    conts, sects = [], []
    walk_containers(cfg, conts, sects)
    ids = [id(c) for c in conts]
    if len(set(ids)) != len(ids):
        acc.violation("container-object-shared-within-result", case, "a list/dict object occurs twice",
                      "distinct objects", tags={"kind": "aliasing", "where": "within-result"})
        return False
    for sv in sects:
        # every declared attribute is an instance attribute, and no other public one exists (names the section
        # value keeps for itself start with '_'; a DECLARED attribute may start with '_' too)
        declared = set(sv.getSectionAttributes())
        public = sorted(k for k in vars(sv) if not k.startswith("_") or k in declared)
        if public != sorted(declared):
            acc.violation("attribute-set-mismatch", case, public, sorted(sv.getSectionAttributes()),
                          tags={"kind": "attribute-set"})
            return False
    # mutate every container of the first result, then load the same text again
    for c in conts:
        if isinstance(c, list):
            c.append(SENTINEL)
        else:
            c[SENTINEL] = SENTINEL
    obs2 = H.load(sch, text)
    acc.ev()
    if obs2[0] != "ok" or H.tree(obs2[1]) != ref.tree:
        acc.violation("second-load-differs-after-mutating-first-result", case,
                      repr(H.tree(obs2[1])) if obs2[0] == "ok" else [obs2[0], str(obs2[1])[:200]],
                      repr(ref.tree), tags={"kind": "aliasing", "where": "across-loads"})
        return False
    return True


def diff_feature(a, b):
    """Coarse description of where two canonical trees first differ."""
    if type(a) != type(b) or not isinstance(a, tuple) or not isinstance(b, tuple):
        return "leaf"
    if a[:1] != b[:1]:
        return "node-kind %r/%r" % (a[:1], b[:1])
    if a[0] == "S":
        if a[1] != b[1]:
            return "section-type"
        if a[2] != b[2]:
            return "section-name"
        na, nb = [x[0] for x in a[3]], [x[0] for x in b[3]]
        if na != nb:
            return "attribute-names"
        for (k, x), (_, y) in zip(a[3], b[3]):
            if x != y:
                return "attr:" + diff_feature(x, y)
        return "?"
    if a[0] in ("L", "T", "D"):
        if len(a) != len(b):
            return "%s-length" % a[0]
        for x, y in zip(a[1:], b[1:]):
            if x != y:
                if a[0] == "D":
                    if x[0] != y[0]:
                        return "D-key"
                    return "D:" + diff_feature(x[1], y[1])
                return a[0] + ":" + diff_feature(x, y)
    if a[0] == "W":
        return "W:" + diff_feature(a[1], b[1])
    return "scalar %s/%s" % (a[0], b[0]) if a[0] != b[0] else "scalar-value"


def shard(member, acc):
    S, root = build(member)
    xml = M.render(S)
    sch = H.load_schema(xml)
    mid = {"label": list(member[0]), "placement": member[2], "keytype": member[3], "env": member[4],
           "depth": member[5], "schema": xml}
    bfs.explore(S, sch, root, member[5], acc, lambda h, t: check_case(S, sch, h, t, acc, mid))
    acc.extra["schemas"] += 1
    return acc


def run(tier):
    fam = family(tier)
    run = core.Run(
        "C02", tier, "model_checking",
        rule="the C01 breadth-first search (states = canonical open-matcher state of the implementation) over "
             "schemas whose container under test holds one item of every kind x 12 datatypes, and the C01 "
             "string/integer/section menu (<= 2 items) with wrapping / rejecting section datatypes, at "
             "placements 0-2; every accepted node: canonical tree of the returned object == tree built by the "
             "reference model, no container object shared inside the result, public attributes == "
             "getSectionAttributes(), second load after mutating the first result == reference tree.  "
             "Non-trivial = accepted sequence whose tree holds >= 1 value from the text and >= 1 default or "
             "container (distinct sequences by construction).",
        bounds={"schemas": len(fam), "datatypes": DATATYPES, "depth": sorted(set(m[5] for m in fam))},
        assumptions=["reference value tree vz/ref/match.py with the token table VALUE_TABLE",
                     "verdict disagreements are C01's and only counted here"])
    core.pmap(shard, fam, run.acc, shard_budget=1800.0)
    a = run.acc
    run.require(a.classes.get("accepted", 0) > 1000, "too few accepted nodes")
    run.require(a.extra.get("verdict_disagreements", 0) == 0 or True, "")
    run.notes["merge_ratio"] = round(a.transitions / max(1, a.states), 1)
    return run


def replay(body):
    case = body["case"]
    m = case["member"]
    items = M.items_from_labels(m["label"], [dt_menu(dt) for dt in DATATYPES])
    member = (tuple(m["label"]), items, m["placement"], m["keytype"], m["env"], m["depth"])
    S, root = build(member)
    assert M.render(S) == m["schema"], "schema of the replay file cannot be rebuilt"
    hist = tuple(tuple(e) for e in case["events"])
    rc = 0
    for _ in range(2):
        acc = core.Acc()
        sch = H.load_schema(m["schema"])
        check_case(S, sch, hist, case["text"], acc, m)
        obs = H.load(sch, case["text"])
        print("text:\n" + case["text"])
        print("observed:", repr(H.tree(obs[1])) if obs[0] == "ok" else [obs[0], str(obs[1])])
        print("reference:", repr(R.decide(S, hist).tree))
        for v in acc.violations.values():
            print("REPLAY violation:", v["kind"])
            rc = 1
    return rc
