"""C01 - a configuration is accepted if and only if it conforms to the schema.

Engine E2 (vz.engine.bfs) over the generated schema family F: for every schema
and every event sequence up to the depth bound (deduplicated on the
implementation's canonical open-matcher state) the completed text is loaded with
ZConfig.loadConfigFile and the accept/reject outcome is compared with the
reference conformance predicate vz.ref.match.decide.
"""
from vz import core
from vz.engine import bfs
from vz.gen import schema as M
from vz.harness import load as H
from vz.ref import match as R


def family(tier):
    """-> list of (label, items, placement, keytype, envkw, depth, full_menu)"""
    fam = []
    base = M.selections(2)
    if tier == "quick":
        for lab, items in M.selections(2, full=True):
            fam.append((lab, items, 0, None, {}, 3))
        for lab, items in base:
            fam.append((lab, items, 1, None, {}, 3))
        for lab, items in M.selections(1):
            for kt in (None, "identifier", "ipaddr-or-hostname"):
                for envkw in ({}, {"nimpl": 0}, {"nimpl": 3}, {"l1_required": True},
                              {"l1_datatype": M.SECT_DT_REJECT}, {"l1_datatype": M.SECT_DT_WRAP}):
                    if kt is None and not envkw:
                        continue
                    fam.append((lab, items, 0, kt, envkw, 4))
            for p in (0, 1, 2):
                fam.append((lab, items, p, None, {}, 4))
    else:
        for lab, items in M.selections(2, full=True):
            fam.append((lab, items, 0, None, {}, 3))
        for lab, items in base:
            for p in (1, 2):
                fam.append((lab, items, p, None, {}, 3))
            for kt in ("identifier", "ipaddr-or-hostname"):
                fam.append((lab, items, 0, kt, {}, 3))
            for envkw in ({"nimpl": 0}, {"nimpl": 1}, {"nimpl": 3}, {"l1_required": True},
                          {"l1_datatype": M.SECT_DT_REJECT}, {"l1_datatype": M.SECT_DT_WRAP}):
                fam.append((lab, items, 0, None, envkw, 3))
        for lab, items in M.selections(1):
            for kt in (None, "identifier", "ipaddr-or-hostname"):
                for p in (0, 1, 2):
                    fam.append((lab, items, p, kt, {}, 5))
        # deeper / wider: every pair of the reduced menu to depth 4, and every third ordered TRIPLE of the reduced
        # menu to depth 3 (three items interact: wildcard key + two slots, two keys + a slot, ...)
        for lab, items in base:
            if len(items) == 2:
                fam.append((lab, items, 0, None, {"_tag": "d4"}, 4))
        for i, (lab, items) in enumerate(M.selections(3)):
            if len(items) == 3 and i % 3 == 0:
                fam.append((lab, items, 0, None, {}, 3))
    return fam


def build(member):
    lab, items, placement, kt, envkw, depth = member
    envkw = {k: v for k, v in envkw.items() if not k.startswith("_")}
    env = M.type_env(**dict(envkw, keytype=kt) if kt else envkw)
    S, root = M.place(items, placement, env, keytype=kt)
    return S, root


def check_case(S, sch, hist, text, acc, member_id):
    obs = H.load(sch, text)
    ref = R.decide(S, hist)
    acc.ev()
    acc.clause(ref.clause)
    case = {"member": member_id, "events": [list(e) for e in hist], "text": text}
    if obs[0] == "internal":
        d = core.exc_desc(obs[1])
        acc.cls("internal")
        acc.violation("internal-error", case, d, ref.verdict,
                      tags={"kind": "internal-error", "exc": d["class"], "where": d["where"]})
        return False
    o = "A" if obs[0] == "ok" else "R"
    acc.cls("ref=%s impl=%s" % (ref.verdict, o))
    if ref.verdict != "U" and any(e[0] != "c" for e in hist) and ref.clause != "unknown-type":
        acc.nt()
    acc.sample(lambda: dict(case, reference=[ref.verdict, ref.clause], observed=o))
    if ref.verdict == "U":
        return False
    if o != ref.verdict:
        acc.violation("accepted-nonconforming" if o == "A" else "rejected-conforming", case,
                      o if o == "A" else [o, type(obs[1]).__name__, str(obs[1])[:160]],
                      [ref.verdict, ref.clause],
                      tags={"kind": "verdict", "ref": ref.verdict, "clause": ref.clause})
        return False
    return True


def shard(member, acc):
    S, root = build(member)
    xml = M.render(S)
    sch = H.load_schema(xml)
    mid = {"label": list(member[0]), "placement": member[2], "keytype": member[3], "env": member[4],
           "depth": member[5], "schema": xml}
    bfs.explore(S, sch, root, member[5], acc, lambda h, t: check_case(S, sch, h, t, acc, mid))
    acc.extra["schemas"] += 1
    return acc


def run(tier):
    fam = family(tier)
    run = core.Run(
        "C01", tier, "model_checking",
        rule="for every schema of the family (ordered selections of <= 2 items from the item menu as "
             "container under test, placements top / 1 / 2 levels down, key types basic-key / identifier / "
             "ipaddr-or-hostname, type-environment variants) a breadth-first search over event sequences "
             "(key lines, section headers in both spellings, closers; vocabulary derived from the schema plus "
             "out-of-vocabulary tokens) up to the depth bound, states = canonical open-matcher state of the "
             "implementation; every transition's completed text is loaded and compared with the reference "
             "conformance predicate.  Non-trivial = sequence with >= 1 key/section event whose reference "
             "verdict is decided (not UNSPEC) by a clause other than unknown-type; sequences are distinct "
             "by construction (BFS extends one representative per state).",
        bounds={"schemas": len(fam), "max_items": 2 if tier == "quick" else 3, "depth": sorted(set(m[5] for m in fam)),
                "menu": "full" if tier != "quick" else "reduced"},
        assumptions=["reference conformance predicate vz/ref/match.py (written from the statement)",
                     "unspecified regions u1-u3 (order-dependent slot search) are not compared",
                     "merging on the open-matcher state is sound: the parser and matchers consult nothing else"])
    core.pmap(shard, fam, run.acc, shard_budget=1800.0)
    a = run.acc
    need = ["accepted", "key-not-declared", "single-key-filled-twice", "single-slot-filled-twice",
            "section-name-reused", "unknown-type", "abstract-type-named-directly", "no-slot-admits-type",
            "name-rule", "name-rule-literal-star-plus", "required-key-missing", "required-section-missing",
            "required-multisection-empty", "required-multikey-empty", "required-wildcard-map-empty",
            "value-unconvertible", "key-normalisation-fails", "single-wildcard-key-filled-twice"]
    missing = [c for c in need if not a.clauses.get(c)]
    run.require(not missing, "reference clauses that never decided a case: %s" % missing)
    run.require(a.classes.get("ref=A impl=A", 0) > 100 and a.classes.get("ref=R impl=R", 0) > 100,
                "too few accepted / rejected cases")
    run.notes["merge_ratio"] = round(a.transitions / max(1, a.states), 1)
    return run


def replay(body):
    case = body["case"]
    m = case["member"]
    member = (tuple(m["label"]), M.items_from_labels(m["label"]), m["placement"], m["keytype"], m["env"], m["depth"])
    S, root = build(member)
    assert M.render(S) == m["schema"], "schema of the replay file cannot be rebuilt"
    hist = tuple(tuple(e) for e in case["events"])
    rc = 0
    for _ in range(2):
        acc = core.Acc()
        sch = H.load_schema(m["schema"])
        check_case(S, sch, hist, case["text"], acc, m)
        obs = H.load(sch, case["text"])
        print("text:\n" + case["text"])
        print("observed:", obs[0], repr(obs[1])[:200])
        print("reference:", R.decide(S, hist).verdict, R.decide(S, hist).clause)
        for v in acc.violations.values():
            print("REPLAY violation:", v["kind"])
            rc = 1
    return rc
