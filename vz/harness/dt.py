"""Importable datatype functions used by generated schemas."""


class Wrapped:
    __slots__ = ("inner",)

    def __init__(self, inner):
        self.inner = inner


def wrap(section):
    return Wrapped(section)


class Wrapped2(Wrapped):
    """A second, distinguishable wrapper: which section datatype was applied is visible in the tree."""
    __slots__ = ()


def wrap2(section):
    return Wrapped2(section)


def reject_lk_x(section):
    """Section datatype that refuses (ValueError) a section whose 'lk' is 'x'."""
    if getattr(section, "lk", None) == "x":
        raise ValueError("lk must not be x")
    return section


RAISED = []          # ValueError instances raised by strict_int, newest last


def strict_int(text):
    """integer conversion that remembers the exception instance it raises (C08)."""
    try:
        return int(text)
    except ValueError:
        e = ValueError("not an integer: %r" % (text,))
        RAISED.append(e)
        del RAISED[:-4]
        raise e


def reject_section(section):
    """Section datatype that refuses (ValueError) a section whose 'lk' is 'x',
    remembering the instance."""
    if getattr(section, "lk", None) == "x":
        e = ValueError("lk must not be x")
        RAISED.append(e)
        del RAISED[:-4]
        raise e
    return section


def lower_key(text):
    """A key type reachable by dotted name: ASCII identifier characters, lower-cased."""
    if not text or not all((c.isalnum() and ord(c) < 128) or c == "_" for c in text) or text[0].isdigit():
        raise ValueError("not a lower_key: %r" % (text,))
    return text.lower()
