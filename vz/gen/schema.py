"""Schema model (plain dataclasses), XML renderer, and the generated family F.

The model is the single description from which (a) the XML text that ZConfig
reads, (b) the reference matcher's view (vz.ref.match) and (c) the event
vocabulary for texts are derived.  Nothing here imports ZConfig.
"""
import itertools
from dataclasses import dataclass, field, replace
from xml.sax.saxutils import quoteattr, escape


@dataclass(frozen=True)
class Key:
    name: str                      # declared name, or '+'
    datatype: str = "string"
    default: object = None         # str | None ; for '+': tuple of (key, value)
    required: bool = False
    attribute: str = None
    handler: str = None


@dataclass(frozen=True)
class MultiKey:
    name: str
    datatype: str = "string"
    defaults: tuple = ()           # tuple of str ; for '+': tuple of (key, value)
    required: bool = False
    attribute: str = None
    handler: str = None


@dataclass(frozen=True)
class Sect:
    name: str                      # fixed name, '*' or '+'
    type: str
    required: bool = False
    attribute: str = None
    handler: str = None
    multi: bool = False


@dataclass(frozen=True)
class SType:
    name: str
    items: tuple = ()
    extends: str = None
    implements: str = None
    keytype: str = None            # None = inherit / default basic-key
    datatype: str = None           # None = inherit / default null
    prefix: str = None


@dataclass(frozen=True)
class AType:
    name: str


@dataclass(frozen=True)
class Schema:
    types: tuple = ()
    items: tuple = ()
    keytype: str = None
    datatype: str = None
    handler: str = None
    prefix: str = None
    imports: tuple = ()            # package names imported by the schema (C11/C12)
    import_pos: int = 0            # the <import> elements are rendered before types[import_pos]
    extends: tuple = ()            # base schema file names (C11)


# ---------------------------------------------------------------------------
# rendering

def _a(**kw):
    return "".join(" %s=%s" % (k.rstrip("_"), quoteattr(str(v))) for k, v in kw.items() if v is not None)


def render_item(it, ind="  "):
    out = []
    if isinstance(it, Key):
        d = it.default if it.name != "+" else None
        head = "<key" + _a(name=it.name, datatype=None if it.datatype == "string" else it.datatype,
                           default=d, required="yes" if it.required else None,
                           attribute=it.attribute, handler=it.handler)
        if it.name == "+" and it.default:
            out.append(ind + head + ">")
            for k, v in it.default:
                out.append(ind + "  <default key=%s>%s</default>" % (quoteattr(k), escape(v)))
            out.append(ind + "</key>")
        else:
            out.append(ind + head + "/>")
    elif isinstance(it, MultiKey):
        head = "<multikey" + _a(name=it.name, datatype=None if it.datatype == "string" else it.datatype,
                                required="yes" if it.required else None,
                                attribute=it.attribute, handler=it.handler)
        if it.defaults:
            out.append(ind + head + ">")
            for dv in it.defaults:
                if it.name == "+":
                    out.append(ind + "  <default key=%s>%s</default>" % (quoteattr(dv[0]), escape(dv[1])))
                else:
                    out.append(ind + "  <default>%s</default>" % escape(dv))
            out.append(ind + "</multikey>")
        else:
            out.append(ind + head + "/>")
    elif isinstance(it, Sect):
        tag = "multisection" if it.multi else "section"
        out.append(ind + "<" + tag + _a(type=it.type, name=it.name,
                                        required="yes" if it.required else None,
                                        attribute=it.attribute, handler=it.handler) + "/>")
    else:
        raise TypeError(it)
    return out


def render_type(t, ind="  "):
    if isinstance(t, AType):
        return [ind + "<abstracttype" + _a(name=t.name) + "/>"]
    out = [ind + "<sectiontype" + _a(name=t.name, extends=t.extends, implements=t.implements,
                                     keytype=t.keytype, datatype=t.datatype, prefix=t.prefix) + ">"]
    for it in t.items:
        out += render_item(it, ind + "  ")
    out.append(ind + "</sectiontype>")
    return out


def render(s):
    out = ["<schema" + _a(keytype=s.keytype, datatype=s.datatype, handler=s.handler, prefix=s.prefix,
                          extends=" ".join(s.extends) if s.extends else None) + ">"]
    for i, t in enumerate(s.types):
        if i == s.import_pos:
            for p in s.imports:
                out.append("  <import package=%s/>" % quoteattr(p))
        out += render_type(t)
    if s.import_pos >= len(s.types):
        for p in s.imports:
            out.append("  <import package=%s/>" % quoteattr(p))
    for it in s.items:
        out += render_item(it)
    out.append("</schema>")
    return "\n".join(out) + "\n"


# ---------------------------------------------------------------------------
# derived views used by the reference model

def type_table(s):
    return {t.name: t for t in s.types}


def eff_items(s, tname):
    """Effective items of a container: the schema (tname None) or a section type
    (base items first, in base order, then own)."""
    if tname is None:
        return tuple(s.items)
    tt = type_table(s)
    t = tt[tname]
    base = eff_items(s, t.extends) if t.extends else ()
    return tuple(base) + tuple(t.items)


def eff_keytype(s, tname):
    if tname is None:
        return s.keytype or "basic-key"
    t = type_table(s)[tname]
    if t.keytype:
        return t.keytype
    if t.extends:
        return eff_keytype(s, t.extends)
    return "basic-key"


def eff_datatype(s, tname):
    if tname is None:
        return s.datatype or "null"
    t = type_table(s)[tname]
    if t.datatype:
        return t.datatype
    if t.extends:
        return eff_datatype(s, t.extends)
    return "null"


def implementers(s, aname):
    return [t.name for t in s.types if isinstance(t, SType) and t.implements == aname]


def is_abstract(s, tname):
    t = type_table(s).get(tname)
    return isinstance(t, AType)


# ---------------------------------------------------------------------------
# the family F

SECT_DT_WRAP = "vz.harness.dt.wrap"
SECT_DT_WRAP2 = "vz.harness.dt.wrap2"
SECT_DT_REJECT = "vz.harness.dt.reject_lk_x"


def type_env(nimpl=2, l1_required=False, l1_datatype=None, keytype=None, lk_handler=None, impl_dt=False):
    """The fixed type environment E of every family member.  impl_dt: the implementers of 'a' carry DIFFERENT
    section datatypes (i1 wrap, i2 - which extends i1 - wrap2, i3 and e1 as inherited / none)."""
    l1_items = [Key("lk", default="d", handler=lk_handler)]
    if l1_required:
        l1_items.append(Key("rk", required=True))
    impl = ["i1", "i2", "i3"][:nimpl]
    return (
        AType("a"),
        SType("l1", tuple(l1_items), keytype=keytype, datatype=l1_datatype),
        SType("l2", (Key("lk2", datatype="integer", default="5"),), extends="l1"),
        SType("i1", (Key("ik"),), implements="a" if "i1" in impl else None, keytype=keytype,
              datatype=SECT_DT_WRAP if impl_dt else None),
        SType("i2", (), extends="i1", implements="a" if "i2" in impl else None,
              datatype=SECT_DT_WRAP2 if impl_dt else None),
        SType("i3", (MultiKey("im"),), implements="a" if "i3" in impl else None, keytype=keytype),
        SType("e1", (), extends="i1"),
    )


def item_menu(full=False):
    """Item constructors f(pos) -> item ; pos in {1,2,3} selects the names so
    two items of one selection never collide at the schema level."""
    menu = []
    dts = ["string", "integer"] if full else ["string"]
    for dt in dts:
        dv = "7" if dt == "integer" else "dv"
        menu.append(("key-%s" % dt, lambda p, dt=dt: Key("k%d" % p, dt)))
        menu.append(("key-%s-default" % dt, lambda p, dt=dt, dv=dv: Key("k%d" % p, dt, default=dv)))
        menu.append(("key-%s-required" % dt, lambda p, dt=dt: Key("k%d" % p, dt, required=True)))
        menu.append(("multikey-%s" % dt, lambda p, dt=dt: MultiKey("m%d" % p, dt)))
        menu.append(("multikey-%s-defaults" % dt,
                     lambda p, dt=dt, dv=dv: MultiKey("m%d" % p, dt, defaults=(dv, "8" if dt == "integer" else "dw"))))
        menu.append(("multikey-%s-required" % dt, lambda p, dt=dt: MultiKey("m%d" % p, dt, required=True)))
    menu.append(("pluskey", lambda p: Key("+", attribute="w%d" % p)))
    menu.append(("pluskey-defaults", lambda p: Key("+", attribute="w%d" % p, default=(("Da", "x"), ("db", "y")))))
    menu.append(("pluskey-required", lambda p: Key("+", attribute="w%d" % p, required=True)))
    # required AND defaults on a wildcard map: the map must still be filled by the text (the statement's "every
    # required ... wildcard map ... is filled"); the plain-multikey counterpart stays unspecified (DESIGN C01 u4)
    menu.append(("pluskey-required-defaults",
                 lambda p: Key("+", attribute="w%d" % p, required=True, default=(("Da", "x"), ("db", "y")))))
    menu.append(("plusmultikey", lambda p: MultiKey("+", attribute="w%d" % p)))
    menu.append(("plusmultikey-defaults",
                 lambda p: MultiKey("+", attribute="w%d" % p, defaults=(("Da", "x"), ("db", "y"), ("da", "z")))))
    menu.append(("plusmultikey-required", lambda p: MultiKey("+", attribute="w%d" % p, required=True)))
    menu.append(("plusmultikey-required-defaults",
                 lambda p: MultiKey("+", attribute="w%d" % p, required=True, defaults=(("Da", "x"), ("db", "y")))))
    types = ["l1", "l2", "a"] if full else ["l1", "a"]
    for ty in types:
        for req in (False, True):
            r = "-required" if req else ""
            menu.append(("section-n1-%s%s" % (ty, r),
                         lambda p, ty=ty, req=req: Sect("n%d" % p, ty, required=req)))
            menu.append(("section-star-%s%s" % (ty, r),
                         lambda p, ty=ty, req=req: Sect("*", ty, required=req, attribute="s%d" % p)))
            menu.append(("section-plus-%s%s" % (ty, r),
                         lambda p, ty=ty, req=req: Sect("+", ty, required=req, attribute="s%d" % p)))
            menu.append(("multisection-star-%s%s" % (ty, r),
                         lambda p, ty=ty, req=req: Sect("*", ty, required=req, attribute="s%d" % p, multi=True)))
            menu.append(("multisection-plus-%s%s" % (ty, r),
                         lambda p, ty=ty, req=req: Sect("+", ty, required=req, attribute="s%d" % p, multi=True)))
    return menu


def is_wild(it):
    return isinstance(it, (Key, MultiKey)) and it.name == "+"


def selections(K, full=False):
    """All ordered selections of <= K menu items (no item kind twice), with the
    labels; selections the schema language forbids (two '+' keys) are dropped
    here - they are C10's negative cases."""
    menu = item_menu(full)
    out = [((), ())]
    for k in range(1, K + 1):
        for combo in itertools.permutations(range(len(menu)), k):
            items = tuple(menu[i][1](pos + 1) for pos, i in enumerate(combo))
            if sum(1 for it in items if is_wild(it)) > 1:
                continue
            out.append((tuple(menu[i][0] for i in combo), items))
    return out


def place(items, placement, env, keytype=None, cut_datatype=None, schema_handler=None, cuts_handler=None,
          mids_handler=None, schema_datatype=None, cut_extends=None, cut_keytype=None, schema_keytype=None):
    """Build the schema whose container-under-test holds `items`.
    placement 0: the schema itself; 1: section type 'cut' reachable through a
    '*' multisection at top; 2: 'cut' inside 'mid' inside the schema."""
    if placement == 0:
        return Schema(types=env, items=items, keytype=keytype, handler=schema_handler, datatype=schema_datatype), []
    cut = SType("cut", items, keytype=cut_keytype or keytype, datatype=cut_datatype, extends=cut_extends)
    if placement == 1:
        s = Schema(types=env + (cut,), items=(Sect("*", "cut", attribute="cuts", multi=True, handler=cuts_handler),),
                   handler=schema_handler, datatype=schema_datatype, keytype=schema_keytype)
        return s, [("o", "cut", None)]
    mid = SType("mid", (Sect("*", "cut", attribute="cuts", multi=True, handler=cuts_handler),
                        Key("mk", default="md")))
    s = Schema(types=env + (cut, mid), items=(Sect("*", "mid", attribute="mids", multi=True, handler=mids_handler),),
               handler=schema_handler, datatype=schema_datatype, keytype=schema_keytype)
    return s, [("o", "mid", None), ("o", "cut", None)]


# ---------------------------------------------------------------------------
# event vocabulary of a container (what texts are assembled from)

BAD_KEY_TOKEN = {"basic-key": "1x", "identifier": "a-b", "ipaddr-or-hostname": "-x", "vz.harness.dt.lower_key": "a-b"}

VALUE_TOKENS = {
    "string": ["v"],
    "integer": ["7", "x"],
    "boolean": ["On", "no", "x"],
    "float": ["1.5", "-2e3", "x"],
    "port-number": ["65535", "65536", "0"],
    "byte-size": ["1kb", "2MB", "x"],
    "time-interval": ["2m", "1H", "x"],
    "identifier": ["Ab_1", "a-b"],
    "basic-key": ["Ab-1.c", "1a"],
    "string-list": ["a  b c", "v"],
    "inet-address": ["Host:80", "7", "host:x", "[::1]:8"],
    "null": ["v"],
}


def related_types(s, slot_type):
    """Type names worth trying in a slot of `slot_type`: the type itself, for an abstract slot its
    implementers and the types that merely extend an implementer, for a concrete one its extenders."""
    tt = type_table(s)
    out = [slot_type]
    if is_abstract(s, slot_type):
        out += [n for n in ("i1", "i2", "e1") if n in tt]
        impl = implementers(s, slot_type)
        out += impl
        out += [t.name for t in s.types if isinstance(t, SType) and t.extends in impl]
    else:
        if slot_type == "l1":
            out.append("l2")
        if slot_type == "l2":
            out.append("l1")
        out += [t.name for t in s.types if isinstance(t, SType) and t.extends == slot_type]
        b = tt.get(slot_type)
        if isinstance(b, SType) and b.extends:
            out.append(b.extends)
    res = []
    for n in out:
        if n not in res:
            res.append(n)
    return res[:6]


def vocabulary(s, tname, can_close, rich=True):
    """Events applicable inside container `tname` (None = the schema)."""
    items = eff_items(s, tname)
    kt = eff_keytype(s, tname)
    evs = []
    keys = [it for it in items if isinstance(it, (Key, MultiKey)) and it.name != "+"]
    wild = [it for it in items if is_wild(it)]
    fixed = [it for it in items if isinstance(it, Sect) and it.name not in ("*", "+")]
    for it in keys:
        toks = list(VALUE_TOKENS[it.datatype])
        if it.name == "lk" and "x" not in toks:
            toks.append("x")
        for v in toks:
            evs.append(("k", it.name, v))
    if keys:
        evs.append(("k", keys[0].name.upper(), VALUE_TOKENS[keys[0].datatype][0]))
    evs.append(("k", "zz", "v"))
    evs.append(("k", BAD_KEY_TOKEN[kt], "v"))
    if fixed:
        evs.append(("k", fixed[0].name, "v"))
    if wild:
        dt = wild[0].datatype
        evs.append(("k", "ZZ", VALUE_TOKENS[dt][-1] if dt != "string" else "w"))
        evs.append(("k", "da", "v"))
    types = []
    for it in items:
        if isinstance(it, Sect):
            for t in related_types(s, it.type):
                if t not in types:
                    types.append(t)
    if not types:
        types.append("l1")
    types.append("qq")
    names = [None, "n1", "N1", "n2", "*", "+"]
    if keys:
        names.append(keys[0].name)
    tt = type_table(s)
    for t in types:
        for n in names:
            evs.append(("e", t, n))
        if rich and isinstance(tt.get(t), SType):
            evs.append(("o", t, None))
            evs.append(("o", t, "n1"))
    if can_close:
        evs.append(("c",))
    return evs


def items_from_labels(labels, extra_menus=()):
    """Rebuild the items of a selection from its labels (used by replays)."""
    reg = dict(item_menu(full=True))
    for m in extra_menus:
        reg.update(dict(m))
    return tuple(reg[l](pos + 1) for pos, l in enumerate(labels))


def lean_vocabulary(s, tname, can_close):
    """Mostly-conforming events (used to grow seed texts for the dependent checks)."""
    items = eff_items(s, tname)
    evs = []
    for it in items:
        if isinstance(it, (Key, MultiKey)):
            if it.name == "+":
                evs.append(("k", "zz", VALUE_TOKENS[it.datatype][0]))
                evs.append(("k", "Da", VALUE_TOKENS[it.datatype][0]))
            else:
                toks = VALUE_TOKENS[it.datatype]
                evs.append(("k", it.name, toks[0]))
                if it.datatype != "string":
                    evs.append(("k", it.name, toks[-1]))
        else:
            if is_abstract(s, it.type):
                ts = implementers(s, it.type)[:2]
            else:
                ts = [it.type]
            if it.name == "*":
                names = [None, "n1"] if not it.multi else [None, "n1", "n2"]
            elif it.name == "+":
                names = ["n1", "n2"] if it.multi else ["n1"]
            else:
                names = [it.name]
            for t in ts:
                for n in names:
                    evs.append(("e", t, n))
                    evs.append(("o", t, n))
    evs.append(("k", "zz", "v"))
    if can_close:
        evs.append(("c",))
    out = []
    for e in evs:
        if e not in out:
            out.append(e)
    return out


def rich_schemas():
    """A few larger schemas (several item kinds at once, three nesting levels)."""
    env = type_env(nimpl=2, l1_required=False)
    inner = SType("inner", (Key("k1", "integer", default="7"), MultiKey("m1"),
                            Sect("n1", "l1"), Sect("*", "a", attribute="impls", multi=True)))
    outer = SType("outer", (Key("k1"), Sect("+", "inner", attribute="inners", multi=True),
                            Sect("*", "l1", attribute="leaf"), MultiKey("+", attribute="extra")))
    r1 = Schema(types=env + (inner, outer),
                items=(Key("k1", "integer", default="7"), MultiKey("m1", defaults=("dv", "dw")),
                       Sect("*", "outer", attribute="outers", multi=True),
                       Sect("n1", "inner"), Key("k2", required=True)))
    env2 = type_env(nimpl=3, l1_required=True, l1_datatype=SECT_DT_REJECT)
    box = SType("box", (Key("+", attribute="opts", default=(("Da", "x"),)), Sect("+", "l1", attribute="leaves", multi=True),
                        Sect("*", "a", attribute="impl", required=True)))
    r2 = Schema(types=env2 + (box,),
                items=(Sect("*", "box", attribute="boxes", multi=True), MultiKey("m1", "integer", required=True),
                       Sect("*", "l2", attribute="two")))
    return [("rich1", r1, []), ("rich2", r2, [])]
