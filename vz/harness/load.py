"""Loading helpers: schemas from model/XML, configs from text, canonical value
trees, and the recording loader that exposes the implementation's open-matcher
state through public extension points only."""
import io

from vz import core
from vz.harness.dt import Wrapped
from vz.harness.dt import Wrapped2

URL = "file:///v/main.conf"
SURL = "file:///v/schema.xml"


def load_schema(xml, url=SURL):
    import ZConfig
    return ZConfig.loadSchemaFile(io.StringIO(xml), url)


def scalar(v):
    if isinstance(v, list):
        return ("L",) + tuple(scalar(x) for x in v)
    if isinstance(v, tuple):
        return ("T",) + tuple(scalar(x) for x in v)
    return (type(v).__name__, v)


def tree(v):
    """Canonical value tree of anything found in a loaded configuration."""
    if isinstance(v, Wrapped2):
        return ("W2", tree(v.inner))
    if isinstance(v, Wrapped):
        return ("W", tree(v.inner))
    if hasattr(v, "getSectionAttributes"):
        attrs = []
        for a in v.getSectionAttributes():
            attrs.append((a, tree(getattr(v, a))))
        return ("S", v.getSectionType(), v.getSectionName(), tuple(attrs))
    if isinstance(v, list):
        return ("L",) + tuple(tree(x) for x in v)
    if isinstance(v, dict):
        return ("D",) + tuple(sorted((k, tree(x)) for k, x in v.items()))
    if isinstance(v, tuple):
        return ("T",) + tuple(tree(x) for x in v)
    if v is None or isinstance(v, (str, bytes, int, float, bool, complex)):
        return (type(v).__name__, v)
    return _otree(v, 0)


def _otree(v, depth):
    """Structural digest of an arbitrary application object (logger factories ...)."""
    import types
    if depth > 8:
        return ("deep",)
    if isinstance(v, (types.FunctionType, types.BuiltinFunctionType, types.MethodType, type)):
        return ("F", getattr(v, "__module__", None), getattr(v, "__qualname__", repr(v)))
    if isinstance(v, types.ModuleType):
        return ("M", v.__name__)
    d = getattr(v, "__dict__", None)
    if d is None:
        import re
        return (type(v).__name__, re.sub(r" at 0x[0-9a-fA-F]+", "", repr(v)))
    out = []
    for k in sorted(d):
        x = d[k]
        if hasattr(x, "getSectionAttributes") or isinstance(x, (list, dict, tuple, Wrapped)) or \
                x is None or isinstance(x, (str, bytes, int, float, bool, complex)):
            out.append((k, tree(x)))
        else:
            out.append((k, _otree(x, depth + 1)))
    return ("O", type(v).__name__, tuple(out))


def load(schema, text, url=URL, overrides=()):
    """-> ('ok', config, handler) | ('rejected', exc) | ('internal', exc)"""
    import ZConfig
    try:
        cfg, h = ZConfig.loadConfigFile(schema, io.StringIO(text), url, overrides=overrides)
        return ("ok", cfg, h)
    except ZConfig.ConfigurationError as e:
        return ("rejected", e, None)
    except Exception as e:
        return ("internal", e, None)


# ---------------------------------------------------------------------------
# events -> text

def ev_line(ev, open_types):
    if ev[0] == "k":
        return ("%s %s" % (ev[1], ev[2])).rstrip()
    if ev[0] == "o":
        return "<%s%s>" % (ev[1], " " + ev[2] if ev[2] else "")
    if ev[0] == "e":
        return "<%s%s/>" % (ev[1], " " + ev[2] if ev[2] else "")
    if ev[0] == "c":
        return "</%s>" % open_types[-1]
    if ev[0] == "i":
        return "%import " + ev[1]
    raise ValueError(ev)


def render_events(events, close=True):
    lines = []
    st = []
    for ev in events:
        lines.append("  " * len(st) + ev_line(ev, st) if ev[0] != "c" else "  " * (len(st) - 1) + ev_line(ev, st))
        if ev[0] == "o":
            st.append(ev[1])
        elif ev[0] == "c":
            st.pop()
    if close:
        while st:
            lines.append("  " * (len(st) - 1) + "</%s>" % st.pop())
    return "\n".join(lines) + "\n"


# ---------------------------------------------------------------------------
# implementation state of an open prefix (for BFS merging)

def make_recording_loader(schema):
    import ZConfig.loader

    class RecordingLoader(ZConfig.loader.ConfigLoader):
        def __init__(self, schema):
            ZConfig.loader.ConfigLoader.__init__(self, schema)
            self.open = []

        def createSchemaMatcher(self):
            sm = ZConfig.loader.ConfigLoader.createSchemaMatcher(self)
            self.open = [sm]
            return sm

        def startSection(self, parent, type_, name):
            m = ZConfig.loader.ConfigLoader.startSection(self, parent, type_, name)
            self.open.append(m)
            return m

        def endSection(self, parent, type_, name, matcher):
            ZConfig.loader.ConfigLoader.endSection(self, parent, type_, name, matcher)
            assert self.open[-1] is matcher
            self.open.pop()

    return RecordingLoader(schema)


def canon_value(v):
    from ZConfig.info import ValueInfo
    if isinstance(v, ValueInfo):
        return ("V", v.value)
    if isinstance(v, list):
        return ("L",) + tuple(canon_value(x) for x in v)
    if isinstance(v, dict):
        return ("D",) + tuple(sorted((k, canon_value(x)) for k, x in v.items()))
    if v is None:
        return None
    return tree(v)


def impl_state(schema, prefix_text, with_handlers=False):
    """Canonical state of the matchers left open by `prefix_text` (a text whose
    sections need not be closed), or None if the prefix itself is refused."""
    import ZConfig
    import ZConfig.cfgparser
    ld = make_recording_loader(schema)
    sm = ld.createSchemaMatcher()
    res = ld.createResource(io.StringIO(prefix_text), URL)
    parser = ZConfig.cfgparser.ZConfigParser(res, ld, None)
    try:
        parser.parse(sm)
    except ZConfig.ConfigurationSyntaxError as e:
        if not (parser.stack and "unclosed sections" in e.message):
            return None
    except ZConfig.ConfigurationError:
        return None
    out = []
    for m in ld.open:
        out.append((m.type.name, getattr(m, "name", None),
                    tuple((a, canon_value(v)) for a, v in m._values.items()),
                    tuple(sorted(m._sectionnames))))
    if with_handlers:
        out.append(("H",) + tuple((h, core.digest(tree(v))) for h, v in sm.handlers))
    if parser.defines:
        out.append(("DEF",) + tuple(sorted(parser.defines.items())))
    return tuple(out)


# ---------------------------------------------------------------------------
# in-memory resources (where the file system is not the subject)

class _Stream(io.BytesIO):
    """what urlopen returns, as far as BaseLoader.openResource looks at it"""

    def __init__(self, data, url):
        io.BytesIO.__init__(self, data)
        self.url = url

    def geturl(self):
        return self.url

    def info(self):
        import email.message
        return email.message.Message()


def mem_loader(schema, files, overrides=(), log=None, real_open=False):
    """ConfigLoader whose public openResource serves file:///v/... URLs from `files`
    (dict url -> text).  `log` (list) receives every URL opened.
    real_open: the loader's own BaseLoader.openResource runs (decoding, wrapping, createResource) and only
    urllib.request.urlopen is replaced, for the duration of each call, by one that serves the bytes of `files`."""
    import ZConfig
    import ZConfig.loader
    base = ZConfig.loader.ConfigLoader
    if overrides:
        from ZConfig import cmdline
        base = cmdline.ExtendedConfigLoader

    class MemLoader(base):
        def openResource(self, url):
            url = str(url)
            if log is not None:
                log.append(url)
            if url in files and real_open:
                import urllib.request
                saved = urllib.request.urlopen
                urllib.request.urlopen = lambda u, *a, **k: _Stream(files[str(u)].encode("utf-8"), str(u))
                try:
                    return base.openResource(self, url)
                finally:
                    urllib.request.urlopen = saved
            if url in files:
                return self.createResource(io.StringIO(files[url]), url)
            if url.startswith("file:///v/"):
                raise ZConfig.ConfigurationError("error opening file %s: no such file" % url, url)
            return base.openResource(self, url)

    ld = MemLoader(schema)
    for o in overrides:
        ld.addOption(o)
    return ld


def load_mem(schema, files, main="file:///v/main.conf", overrides=()):
    """-> ('ok', config, handler) | ('rejected', exc) | ('internal', exc)"""
    import ZConfig
    try:
        ld = mem_loader(schema, files, overrides)
        cfg, h = ld.loadFile(io.StringIO(files[main]), main)
        return ("ok", cfg, h)
    except ZConfig.ConfigurationError as e:
        return ("rejected", e, None)
    except Exception as e:
        return ("internal", e, None)


# ---------------------------------------------------------------------------
# structural digest of a schema object (C12, C13)

def _dt_name(f):
    return "%s.%s" % (getattr(f, "__module__", "?"),
                      getattr(f, "__qualname__", getattr(type(f), "__qualname__", "?")))


def _default_digest(info):
    out = []
    for attr in ("_default", "_rawdefaults"):
        v = getattr(info, attr, None)
        out.append((attr, canon_value(v) if v is not None else None))
    try:
        out.append(("getdefault", canon_value(info.getdefault())))
    except Exception as e:          # pragma: no cover
        out.append(("getdefault", "raises %s" % type(e).__name__))
    return tuple(out)


def schema_digest(schema, component_urls=()):
    """Everything a later load can depend on, read through public accessors where
    they exist (private attributes are read defensively with getattr)."""
    out = []
    names = sorted(schema.gettypenames())
    out.append(("types", tuple(names)))

    def container(t):
        rows = []
        for key, info in t:
            row = [key, type(info).__name__, info.name, info.attribute, info.minOccurs, repr(info.maxOccurs),
                   info.handler, id(info.datatype) if info.datatype is not None else None]
            if info.issection():
                row.append(("sectiontype", info.sectiontype.name, id(info.sectiontype)))
            else:
                row.append(_default_digest(info))
            rows.append(tuple(row))
        return (t.name, id(t.keytype), id(t.datatype), tuple(rows),
                tuple(getattr(t, "_keymap", {}).keys()), tuple(getattr(t, "_attrmap", {}).keys()))

    for n in names:
        t = schema.gettype(n)
        if t.isabstract():
            out.append(("abstract", n, tuple(t.getsubtypenames()),
                        tuple((k, id(v)) for k, v in getattr(t, "_subtypes", {}).items())))
        else:
            out.append(("concrete", n, id(t), container(t)))
    out.append(("schema", container(schema), schema.handler, schema.url))
    out.append(("components", tuple(getattr(schema, "_components", {}).keys()),
                tuple(schema.hasComponent(u) for u in component_urls)))
    reg = getattr(schema, "registry", None)
    out.append(("registry-other", tuple(sorted(getattr(reg, "_other", {}) or ()))))
    return tuple(out)
