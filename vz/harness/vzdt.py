"""Importable datatype functions for generated schemas of the fault-point engine (E4).

A generated schema names these functions as ``datatype="vz.harness.vzdt.conv"`` etc.
Every call is reported to ``HOOK`` (set by ``vz.engine.faults.Instrument`` while a load is
being observed), which counts the call and may raise the injected exception, so "the k-th
datatype conversion" and "the section datatype call of the i-th section" are fault points
of a load.  Without a hook the functions are plain, total conversions.
"""

HOOK = None          # callable(kind, value) or None; kind in {"conv", "sect"}


class Wrapped:
    """What the section datatype returns: the section value, visibly wrapped."""
    __slots__ = ("value",)

    def __init__(self, value):
        self.value = value


def conv(value):
    """Key datatype: counted conversion, returns 'c:' + value."""
    h = HOOK
    if h is not None:
        h("conv", value)
    return "c:" + value


def keyt(value):
    """Key type (key-name conversion): counted with the datatype conversions."""
    h = HOOK
    if h is not None:
        h("conv", value)
    return value.lower()


def sect(section):
    """Section datatype: counted separately, wraps the section value."""
    h = HOOK
    if h is not None:
        h("sect", section)
    return Wrapped(section)
