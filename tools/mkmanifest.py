#!/usr/bin/env python3
"""Regenerates /verif/MANIFEST.json from the table below (only properties whose
module exists under vz/props are claimed; the rest go to not_applicable with the
reason 'check not built yet' or the explicit reason given here)."""
import json
import os

ROOT = os.path.dirname(os.path.dirname(os.path.abspath(__file__)))

CHECKS = {
    "C10": dict(
        category="model_checking",
        technique="deviation-bounded exhaustive exploration of schema documents: every base document rendered from the "
                  "schema model must load; every rule-violating edit operator is applied at every applicable element of "
                  "every base document (thorough: every pair at unrelated elements) and must raise SchemaError from "
                  "loadSchemaFile; rule-preserving operators at every site must keep the document loadable",
        text="~260 base documents (generated family at placements 0-2, rich / C08 / C13 schemas, a composed document with "
             "derived key types and prefixes, a component document imported by a schema); 40 violating operators "
             "covering every rule of the statement (duplicate type / key / attribute names incl. inherited ones, use "
             "before definition, extends / implements of the wrong kind or undefined, '*' key names, wildcard without "
             "attribute, multisection with a fixed name, default vs required, default keying, colliding wildcard "
             "defaults also under a derived key type, malformed names / attributes / handlers / prefixes, reserved "
             "getSection prefix, required values, unknown datatypes and key types, nesting, unknown elements, stray "
             "text) and 10 preserving operators. Plus: the DTD nesting matrix (14 child tags at every element and inside every legal first-level child, text-only parents included), text at every position, two-container documents under every key-type combination judged per container, every name-bearing attribute enumerated as a string (37 slots x 3 positions x key types), and containers whose history lies in base schema files (5 layouts x 66 key-type combinations).",
        note="Each violating operator breaks a rule by construction at its site; pairs only at elements neither of "
             "which contains the other.  Not generated (unspecified): <default> inside a plain <key>, required with "
             "<default> on multikey / wildcard, malformed XML, cardinality of <description>, well-formed dotted "
             "datatype names that cannot be imported.",
        design="DESIGN.md section 3, C10", engine="E3 deviate"),
    "C11": dict(
        category="model_checking",
        technique="differential exploration over schemas x texts: composed schemas are generated exhaustively within "
                  "bounds, each is loaded together with its mechanically produced expansion, and the whole C01 "
                  "breadth-first search (explicit-state, real loader) of the expanded schema is replayed on both",
        text="Extends chains of length 1..3 (every item kind per link, key type / datatype / implements overridden at "
             "every subset of links, wildcard defaults colliding only under a derived key type), prefixes on schema and "
             "section types in every relative / absolute combination with every spelling of section datatype, key "
             "datatype and key type, schema-level extends of 1..3 base files in 5 key-type situations (conflicts must "
             "be refused), component imports along every import graph over 3 generated packages x every import list "
             "of length <= 3 (import orders that leave a type undefined must be refused).  Identical outcome (value "
             "tree or rejection) for every text; acceptance of the schema itself identical. Plus: spellings of an import reference (file omitted / explicit / prefix-relative) with two component files per package and %import of components the schema already has; homonymous dotted names that mean different functions under different prefixes (schema / section type / derived type / component / base file); histories of reads with %import lists against one composed schema object.",
        note="Trusted: vz/gen/expand.py (written from the statement).  Texts in C01's unspecified regions are not "
             "compared; top-level attribute order is not compared for schema-level extends (merge order is not in the "
             "statement).  Only two prefix-bearing nesting levels exist in the schema language.",
        design="DESIGN.md section 3, C11", engine="E2 bfs"),
    "C19": dict(
        category="fault_enumeration",
        technique="fault-point enumeration: each generated load graph is executed once to count its fault points and "
                  "then once per point with exactly that point raising; the open/closed state of every Resource and URL "
                  "stream and the outcome of a following load are compared with the failure-free run",
        text="All ordered include / %import / schema-extends / <import package> / <import src> trees of 3..4 (quick) / 5 "
             "(thorough) real resources, plus every acyclic extra reference edge (diamonds, double include, double "
             "extends), loadURL and loadFile entry points, schema-then-config sessions; x every single fault point "
             "(opening resource j, the URL-stream read, every parser readline/read i of resource j, the k-th datatype "
             "conversion, the i-th section datatype call) x 2 exception types + one that is not an Exception (a BaseException "
             "subclass standing for KeyboardInterrupt / SystemExit).  After return or raise: every Resource "
             "handed out by createResource has closed == True and file is None and its file is closed; every urlopen "
             "stream is closed and was already closed when createResource was called; a following failure-free load "
             "gives the failure-free outcome. Plus: the public entry points (loadSchema, loadSchemaFile, loadConfig, loadConfigFile, an ExtendedConfigLoader object reloaded after a failed load) x command-line override sets (fault points between the open of a resource and its first read), and every %include back edge with a repeat / reload on the same loader.",
        note="Trusted: class-level wrapper of BaseLoader.createResource, wrappers of urllib.request.urlopen and "
             "ZConfig.loader.openPackageResource installed by the harness (vz/engine/faults.py), counting datatypes in "
             "vz/harness/vzdt.py.  file: and package: resources only; one fault per run; re-use of a ConfigLoader "
             "instance whose load failed is observed, not judged.",
        design="DESIGN.md section 3, C19; tools/notes/C19.md", engine="E4 faults"),
    "C12": dict(
        category="model_checking",
        technique="explicit-state breadth-first search over texts ('%import' / section-use sequences, state = reference "
                  "container state + imports seen) and exhaustive enumeration of load histories against one schema "
                  "object, for every implements/extends combination of a schema family with generated component "
                  "packages; every load compared with a reference admission model and a structural schema digest",
        text="Schemas: abstract types a (and b) x 2..3 (quick) / 4 (thorough) concrete types, each implementing none / a "
             "/ b and extending none / any earlier one, in every combination, plus variants that import a package at "
             "schema level.  Packages: two adding implementers (one with an extender of an implementer), one defining "
             "another package's type name differently, one needing an absent abstract type; a package without "
             "component, a plain module, a missing name.  Texts: all event sequences to depth 4-5; histories: all "
             "sequences of <= 2-4 loads of 17 representative texts (every 'import X, use a type of Y' combination over "
             "three components); every explored text with an import and a use is also cut into two resources at every "
             "point, in both include directions, and must give the same outcome.  Outcome == reference (admission set = declared "
             "implementers + imported earlier in THIS load; import idempotent; non-components refused); digest of the "
             "schema (implementer tables, type table, children, defaults, components) unchanged.",
        note="Known finding (findings.d/C12.json): %import leaks implementers into the application schema's abstract "
             "types; follow-on outcome differences are attributed only when the failing text uses a type name imported "
             "by an earlier load AND itself imports a package that defines that name differently.  Trusted: vz/ref/match.py, schema_digest().",
        design="DESIGN.md section 3, C12", engine="E2 bfs"),
    "C13": dict(
        category="model_checking",
        technique="exhaustive enumeration of all operation sequences up to depth 4/5 on one schema object plus an "
                  "explicit-state breadth-first search to depth 8 with state = structural digest of the schema; "
                  "differential oracle (same operation on a fresh schema) and digest invariant on every step",
        text="18 operations: valid loads (defaults only / everything supplied), invalid loads with the fault at the "
             "syntax, matching, key-conversion, value-conversion, default-vs-value, section-datatype and top-level "
             "finish stage, six loads around '%import' (two different components - what one load imported must not be "
             "usable in the next -, and a third one defining a type name differently), loads with "
             "convertible / unconvertible overrides, mutation of every list/dict reachable from the last result.  Each "
             "step's outcome == outcome on a freshly loaded schema; schema digest (types, implementers, children, key "
             "and attribute maps, default stores incl. raw defaults, components, registry) unchanged.  If every "
             "operation maps the start state to itself the BFS closes after one level and longer sequences are covered "
             "by induction on the digest; the explicit sweep guards the digest's completeness.",
        note="Known findings (findings.d/C13.json): the C12 import leak and its follow-on (attributed only to the load "
             "that redefines the leaked type name).  Trusted: schema_digest().",
        design="DESIGN.md section 3, C13", engine="E2 bfs"),
    "C07": dict(
        category="model_checking",
        technique="deviation-bounded exhaustive exploration: every single (thorough: double) character-, token- and "
                  "line-level mutation of every seed text and override specifier, plus enumeration of all 512 include "
                  "graphs over three resources and in-process runs of the validator command; invariant oracle on the "
                  "class of whatever escapes",
        text="(a) delete / duplicate / transpose at every character, insertion of every grammar metacharacter and five "
             "out-of-vocabulary characters at every position, delete / duplicate / swap of every token and line, "
             "insertion of 22 junk lines at every line position - for every seed (accepted corpus texts, a 40-line "
             "text with defines, nesting, %import); (b) valid override specifiers, all their single mutations and "
             "pairs, for seeds chosen so that every section-type path of the corpus is addressed; (a2) every identifier "
             "of the schema (key, slot, attribute, type names) in every line role (key, section type, section name "
             "under every type, closer) at every line position; (b2) a purpose-built schema with integer / boolean / "
             "wildcard keys at depth 0..3 under two key types: 14 paths x 8 keys x 7 values as specifiers with all "
             "their single mutations and ordered pairs, against every long/short spelling of the text; (c) every "
             "include graph on 3 in-memory files (cycles and self-loops included) at top level and inside a section, "
             "entered by URL and from a URL-less top-level text: cyclic graphs rejected, acyclic top-level graphs "
             "accepted; (d) validator.main on 1-3 files: status 0/1, one message per invalid file in order; (e) "
             "'%include' / '%import' with every argument built from 12 URL prefixes + <= 2 (thorough 3) tokens of a "
             "16-token URL alphabet, from a named and from a URL-less top.  Only ZConfig.ConfigurationError-family "
             "exceptions may escape.",
        note="Schemas use only ValueError-raising datatypes.  Remote URLs not covered.",
        design="DESIGN.md section 3, C07", engine="E3 deviate"),
    "C08": dict(
        category="model_checking",
        technique="deviation-bounded exhaustive exploration: for every accepted seed text and every way of spreading it "
                  "over 1-3 resources, exactly one fault of each applicable kind is injected at every line position of "
                  "every resource (culprit known by construction) and the raised error's position is checked",
        text="Seeds from the reference-model BFS over a purpose-built schema whose containers admit all ~35 fault kinds "
             "(plus hand-written deep seeds and blank/comment-decorated variants); layouts: one resource, a balanced "
             "range in an included resource, two nested includes (in-memory, distinct URLs).  Oracle: .lineno == "
             "1-based culprit line within its resource, .url == that resource's URL; for conversion errors .value == "
             "offending text and .exception is the very ValueError instance the datatype raised; both spellings of "
             "empty sections. Plus: $-faults in 6 carriers (key, multikey, first / repeated %define, %include, %import) x 6 constructs x 5 histories of the referenced definition, at every line position of every resource.",
        note="The position of a rejecting *section datatype* is not compared (not in the statement's list; it runs "
             "when the enclosing container finishes).  Single faults only.",
        design="DESIGN.md section 3, C08", engine="E3 deviate"),
    "C20": dict(
        category="model_checking",
        technique="exhaustive enumeration of the logger component's option, level and format-string products, and an "
                  "explicit-state BFS plus all operation sequences up to the depth bound over {factory call, reopenFiles, "
                  "closeFiles, drop reference}, each case executed on the real component and compared with an "
                  "independent reference model (level table, handler decision table, Python's own rendering of the "
                  "format, registry model)",
        text="Within the stated bounds every accepted <logger>/<eventlog>/<logfile> configuration yields the logger of "
             "the configured name with the configured numeric level, propagate flag and one handler per section in "
             "order with the documented class, attributes, level and rendering; factories are idempotent; level "
             "names / integers follow the documented table; the STDOUT/STDERR and old-files refusals hold; a format "
             "accepted at load time builds and formats an ordinary record; the reopenable-handler registry equals the "
             "live unclosed file handlers after every operation sequence (states / transitions of the registry BFS "
             "reported). Plus: handler-section histories (every section loaded after every other one in fresh processes; sibling handlers of one logger) and logger-section histories (a factory run on the tree another section configured).",
        note="Trusted: vz/ref/logmodel.py, CPython's logging.Formatter / string.Template as the rendering oracle.  "
             "The exception class of a load-time format refusal is not compared (statement silent).  Unspecified "
             "option combinations (interval without when, both when and max-size, old-files alone, neutral-valued "
             "options on STDOUT) are checked for totality only.  syslog / NT handlers are not instantiated.  Two open "
             "known findings (findings.d/C20.json).",
        design="DESIGN.md section 3, C20; tools/notes/C20.md", engine="E2 bfs"),
    "C09": dict(
        category="exploration",
        technique="exhaustive enumeration (E1) of all strings up to a per-type bound over per-type class-representative "
                  "alphabets, structured token products and a full-Unicode one-position sweep, each run through "
                  "Registry().get(name) and compared with an independent reference conversion; plus product-automaton "
                  "reachability (E5) between the determinised live re pattern and a hand-written automaton for the five "
                  "regular-expression datatypes",
        text="All 26 stock datatypes; totality everywhere (value or ValueError; TypeError only for timedelta's unknown "
             "unit), exact result on the documented domain, idempotence of the key-normalising converters; exhaustive "
             "within the stated bounds (41 M cases quick, 487 M thorough).  For the five regex datatypes the full-match "
             "language is decided for strings of every length by exploring the product of the determinised live "
             "pattern with a reference automaton (states / transitions reported). Plus call histories: every case converted again after the caller mutated the first result, a reverse-order pass through a second registry, all 650 ordered datatype pairs and all ordered input pairs on short strings; ZConfig.datatypes is reloaded per shard so that state kept by a converter cannot hide behind scheduling.",
        note="Trusted: vz/ref/dtypes.py (IPv6 validator self-tested against ipaddress at start-up), re._parser node "
             "semantics as re-implemented in vz/engine/dfa.py (validated against rx.fullmatch at every code point on "
             "every run), os.path for existing-*.  The prefix-match-then-compare gap of RegularExpressionConversion is "
             "decided by E1 up to the length bound only.  Unspecified (totality only): one-letter host names, "
             "non-ASCII identifiers, float inf/nan, unbalanced brackets in inet addresses, locale.",
        design="DESIGN.md section 3, C09; tools/notes/C09.md", engine="E1 enumerate"),
    "C18": dict(
        category="exploration",
        technique="exhaustive enumeration of all strings up to length 6/7 over an 11-symbol URL alphabet through the URL "
                  "helpers against an independent RFC 3986 reference model, and of all (reference kind, 2-hop directory "
                  "layout, file name, cwd) states on real files, each loaded through every entry point and compared with "
                  "each other and with the tree the layout was built to produce",
        text="(a) isPath, urlnormalize (+ idempotence), urldefrag, urljoin x 3 bases, normalizeURL on every string <= 6/7 "
             "over {a C : / \\ # . f i l e} plus 'file:' + every string <= 4/5 in four scheme spellings.  (b) real files: "
             "names of 1 (quick) / 2 (thorough) characters over 15 URL-neutral symbols incl. space and non-ASCII, 26 "
             "two-hop layouts (same / sub / parent directory per hop), %include / import src / schema extends, 3 "
             "working directories, 5 ways of naming the top resource, 4 variants (good, failing leaf, #fragment on the "
             "reference, #fragment on the top name), decoy files at every other slot.  Exhaustive within the bounds. Plus: five spellings of the in-file references (percent-encoded upper / lower, literal, mixed), three more top-URL forms, and every ordered pair of different characters as (directory name, file stem).",
        note="Trusted: vz/ref/urls.py, the POSIX tmpfs with UTF-8 names.  Unspecified regions (scheme case, host-form "
             "file URLs, network-path references ...) are checked for totality and file:/// form only.  Remote and "
             "package: URLs are not part of this check.",
        design="DESIGN.md section 3, C18; tools/notes/C18.md", engine="E1 enumerate"),
    "C15": dict(
        category="model_checking",
        technique="breadth-first search over rewrite applications: from every seed text all applications of the layout "
                  "rewrites of the statement to the depth bound, texts deduplicated, every reached text loaded and "
                  "compared (differential) with the seed's outcome",
        text="Seeds: accepted and rejected corpus texts, %define texts, configurations for the shipped logger and "
             "basic-mapping components.  Rewrites: indent (tab-first, Unicode space) / trailing blanks on every line, "
             "blank or comment line at every position, letter case of every section type (openers and closers "
             "independently), section name, define name, $-reference and (basic-key containers) key, <t/> <-> "
             "<t></t>, swap of adjacent lines of different keys.  Depth 2 (quick) / 3 and 4 along a reduced set "
             "(thorough).  Same value tree (application objects compared by structural digest) or same rejection. Plus: a three-container key-type family (27 schemas) with per-line key-case rewrites, every closure loaded in both orders, each order in a fresh process (the seed's outcome must not depend on what was loaded before).",
        note="Trusted: tree()/_otree digests.  Case rewrites touch ASCII letters only; key case only where the "
             "container's key type is basic-key.",
        design="DESIGN.md section 3, C15", engine="E3 deviate"),
    "C05": dict(
        category="model_checking",
        technique="explicit-state breadth-first search over define/use/include histories against the real loader, "
                  "state = (defines mapping, include depth) validated against the implementation by probing every "
                  "name at each new state; every transition compared with a reference namespace model, loaded twice",
        text="Histories up to depth 4 (quick) / 6 (thorough) over ~65 events: %define of 3 names in 2 spellings each "
             "x {literal, empty, padded, $other, $$other, ${other}x}, illegal names, uses of every spelling, entering "
             "and leaving %include-d resources (depth 2, served through the public openResource override).  Each "
             "transition: the files are loaded twice against one schema object; outcome (values of the uses / "
             "syntax error / replacement error with the name) equals the reference DefineSpace. Plus (after the seeding waves): a name-position token alphabet inside the BFS, multi-load sessions on ONE loader object (every ordered pair / triple of short texts, five loader variants, refused first loads), and every Unicode code point at four positions of the %define name judged by consistency (accepted iff isname(); an accepted name can be referred to and is write-once).",
        note="Trusted: vz/ref/subst.py DefineSpace.  A refused %define is 'rejected as a syntax error' whichever of "
             "ConfigurationSyntaxError / its subclass SubstitutionReplacementError is raised.",
        design="DESIGN.md section 3, C05", engine="E2 bfs"),
    "C06": dict(
        category="model_checking",
        technique="deviation-bounded exhaustive exploration of cut sets: for every seed text all sets of 1..n balanced "
                  "line ranges (disjoint or nested) x placements are moved into real files and the include load is "
                  "compared (differential) with the load of the original text; all unbalanced ranges must be rejected",
        text="Seeds: accepted and rejected corpus texts (<= 7/9 lines) and ~800 %define texts (all 3-/4-line texts over "
             "a define/use/section alphabet with three names).  Fragments in the same directory, a sub-directory "
             "whose name holds a space, or the parent directory of the includer, referenced relatively; nested "
             "fragments resolve against their own includer.  ZConfig.loadConfig(path) vs "
             "loadConfigFile(StringIO(original)): equal tree or both rejected. Plus: folded layouts (one fragment included from several places, diamonds, chains) incl. a reused loader with a faulty and then repaired fragment; spellings of the %include reference (5 forms x 12 ways of producing it through $-expansion / environment x 3 name kinds x 4 %define sites).",
        note="Include arguments are URL-quoted relative references.  Remote URLs not covered (no network).",
        design="DESIGN.md section 3, C06", engine="E3 deviate"),
    "C16": dict(
        category="model_checking",
        technique="explicit-state breadth-first search (C01 search, merge key extended by the shared handler list) over "
                  "schemas with handler attributes on every subset of sites; on every accepted state the returned "
                  "composite handler is exercised with all map variants and compared with the reference entry list",
        text="Handler attributes on every subset of {schema, items of the container under test, wrapper slots, leaf "
             "key} for <= 1 item (selected subsets for 2 items), placements 0-2, wrapping section datatypes.  Every "
             "accepted node: len(handler); call sequence and delivered values (canonical equality with the reference "
             "entry, and identity with an object of the returned tree for containers / sections) for the complete "
             "map; the upper-cased map; each single name missing (configuration error, zero calls), mapped to None "
             "(skipped, rest in order), duplicated in another letter case (configuration error, zero calls). Plus: 14 kinds of callables (falsy, equal-to-anything, unhashable, raising __bool__ ...), 5 mapping kinds, None subsets and missing / duplicate names next to None or falsy values; the same texts loaded through command-line overrides (every section by name / type at any depth), override lists, one loader serving two loads and the %include route, judged by a reference model of overrides.",
        note="Trusted: entry order of vz/ref/match.py.  Map keys that are not valid basic-keys are not generated "
             "(statement silent).",
        design="DESIGN.md section 3, C16", engine="E2 bfs"),
    "C14": dict(
        category="model_checking",
        technique="deviation-bounded exhaustive exploration: for every accepted corpus text (seed) ALL override lists "
                  "up to the length bound over a specifier alphabet derived from the seed's section tree, with a "
                  "differential oracle (override load vs load of the text edited by the statement's rule) cross-checked "
                  "against the reference conformance model",
        text="Seeds: accepted texts with >= 1 section from the reference-model BFS over the schema family, two rich "
             "3-level schemas, and every key-like item one / two levels down in a container whose key type differs "
             "from the schema's (a specifier's key is normalised by the key type of the section it addresses).  Specifiers: every section by name / type / upper case to depth 3 x declared, absent, "
             "unknown, wildcard-captured and key-type-refused keys x convertible, empty, unconvertible, '$', '$$' and "
             "'=' values; absent sections; malformed specifiers.  All singles, all ordered pairs over an interacting "
             "sub-alphabet (thorough: triples and quadruples).  Equal tree or both rejected; must-reject cases; "
             "ConfigurationSyntaxError for malformed specifiers; DataConversionError for a single unconvertible value.",
        note="Trusted: edit() in vz/props/c14.py, tree().  Override values restricted to strings the text syntax can "
             "express (no leading/trailing blanks).",
        design="DESIGN.md section 3, C14", engine="E3 deviate"),
    "C01": dict(
        category="model_checking",
        technique="explicit-state breadth-first search over the real loader/matcher transition function "
                  "(states = canonical open-matcher state, rebuilt by replaying event histories) for every schema "
                  "of a generated family, every transition compared with an independent reference conformance predicate",
        text="For every schema of the family (ordered selections of <= 2 items from a 56-item menu - incl. required "
             "wildcard maps that also carry defaults - as container "
             "under test; placements top/1/2 levels down; key types basic-key/identifier/ipaddr-or-hostname; "
             "abstract type with 0..3 implementers, derived types, required key inside optional section, rejecting / "
             "wrapping section datatypes) all event sequences up to the depth bound are explored breadth-first, "
             "deduplicated on the implementation's open-matcher state; the completed text of every transition is "
             "loaded with ZConfig.loadConfigFile and accept/reject is compared with vz.ref.match.decide.  "
             "Exhaustive within the bounds; the model (reference) is compared with the code on every transition, "
             "so traces_validated_against_impl == transitions.",
        note="Trusted: vz/ref/match.py, vz/gen/schema.py (renderer).  UNSPEC (executed, not compared): header "
             "name equal to a reserved key / fixed section name DECLARED BEFORE the wildcard slot that fits (u1; with "
             "the slot declared first the statement decides: accepted), several slots fit "
             "or an earlier type-fitting wildcard slot refuses the name (u2), key spelled like a fixed section "
             "name while a '+' key exists (u3).  Not generated: required together with defaults on multikey / "
             "plain multikeys (u4; on wildcard maps it is decided: the text must fill the map).",
        design="DESIGN.md section 3, C01", engine="E2 bfs"),
    "C02": dict(
        category="model_checking",
        technique="the C01 explicit-state breadth-first search with a second oracle: canonical value tree of the "
                  "returned object == tree built by the reference model, plus aliasing / attribute-set invariants "
                  "and a mutate-then-reload differential on every accepted node",
        text="Schemas: one item of every kind x 12 standard datatypes (token table with independent expected "
             "values), the C01 string/integer/section menu with wrapping and rejecting section datatypes, "
             "placements 0-2, three key types, derived containers under another key type, abstract slots whose "
             "implementers carry different section datatypes (each member through ITS datatype).  On every accepted node: tree(config) == reference tree (attribute "
             "set and order, converted values, defaults, wildcard maps keyed by the normalised key, "
             "all-or-nothing wildcard defaults, multisection order, section datatype applied, type and lower-cased "
             "name); no list/dict object occurs twice in one result; public attributes == getSectionAttributes(); "
             "after mutating every container of the result a second load gives the reference tree again.",
        note="Trusted: vz/ref/match.py incl. VALUE_TABLE; vz/harness/load.py tree().  Verdict disagreements are "
             "C01's and only counted.",
        design="DESIGN.md section 3, C02", engine="E2 bfs"),
    "C04": dict(
        category="exploration",
        technique="exhaustive bounded enumeration of inputs (all strings <= n over a 10-symbol "
                  "alphabet x all define/env subsets; full-Unicode one-position sweep; "
                  "deviation-bounded sweep of a 200-char seed) against an independent reference scanner",
        text="Every string up to length 6 (quick) / 8 (thorough) over one representative per "
             "character class, under every define/undefine subset of the names it references (every non-empty subset twice: values "
             "full of '$' constructs, and every defined name holding the EMPTY string), is "
             "executed on the real substitute()/isname() and compared with a reference scanner "
             "written from the statement; plus all 1.1M code points at one position of five "
             "contexts (isname: four positions), a letter-class consistency oracle for every non-ASCII "
             "letter (a name character at the start iff inside, for isname and for '$name' scanning) "
             "and all single (double) deviations of a 200-char seed.  Exhaustive within "
             "the bound; a pure function has no state, so enumeration of inputs is the whole "
             "behaviour space.",
        note="Trusted: the reference scanner vz/ref/subst.py.  Unspecified (totality and the "
             "consistency oracle only): non-ASCII alphanumerics adjacent to a name.  Not covered: strings longer than the "
             "bound that are not 1-2 deviations from the seed.",
        design="DESIGN.md section 3, C04", engine="E1 enumerate"),
    "C03": dict(
        category="exploration",
        technique="exhaustive bounded enumeration of inputs (all lines <= L over a 15-class alphabet, "
                  "all texts <= n lines over a 41-line alphabet, all 1-/2-line deviations of a 40-line seed, "
                  "all Unicode code points in fixed contexts) against an independent reference scanner, "
                  "through two observers",
        text="Every enumerated text is run through the real ZConfigParser with a recording context and "
             "through schemaless.loadConfigFile; the event sequence with line numbers, the nested tree, the "
             "verdict, the error class and the error line are compared with a hand-written reference "
             "scanner.  The grammar is a pushdown recogniser whose behaviour per line depends only on the "
             "line class and the open-section stack, so short lines x short texts x deviations of a deep "
             "seed cover its transitions; directive names are additionally swept over the tree's own "
             "identifier vocabulary (every name visible on the parser / loader classes, cut at '_' "
             "boundaries, three letter cases, near-misses of the real directives); exhaustive within the "
             "stated bounds.",
        note="Trusted: vz/ref/lines.py; whitespace = str.isspace(). Which of several faults on one line is "
             "reported is unspecified. Position of SubstitutionSyntaxError is left to C08.",
        design="DESIGN.md section 3, C03", engine="E1 enumerate"),
    "C17": dict(
        category="exploration",
        technique="exhaustive bounded enumeration of inputs (the C03 text spaces plus a '$$'/grammar-character "
                  "line alphabet) with a differential round-trip oracle parse->str->parse->str",
        text="For every enumerated text the schema-less loader accepts, str() of the result is loaded again "
             "and must give a structurally equal result whose str() is identical; texts with %define/%include "
             "must be refused; the alphabet holds '$$' in values and import names, '$(NAME)' against a fixed "
             "environment, repeated keys, mixed case, nested and empty sections; every Unicode code point in 6 (8) contexts, among "
             "them the start of a key line that is not the first line of the text but becomes the first line of its "
             "serialisation.  Exhaustive within the bounds; "
             "the oracle needs no expected values.",
        note="Trusted: structural comparison in vz/props/c17.py. Known findings: headers ending in '/'; values "
             "with outer blanks (reachable through '$(NAME)' only).",
        design="DESIGN.md section 3, C17", engine="E1 enumerate"),
}

# axes added after the fifth wave of independently seeded changes (tools/notes/CNN-wave5.md); appended to the level text
WAVE5 = {
    "C01": "key-type mix: schema, a sibling section type and the container under test carry key types from {no attribute, "
           "basic-key, identifier, ipaddr-or-hostname} in every combination (16 pairs quick / 64 triples thorough), key "
           "tokens = one representative of each of the 2^3 membership classes of the three key-type languages plus a case "
           "variant, searched breadth-first like the main family (history: spellings met earlier by another key type while "
           "the schema was parsed, earlier in the text, in an earlier load).",
    "C02": "spelling axes judged by the same oracle: section names (every code point some case mapping moves x 5 contexts x "
           "both header forms; every string of length <= 2 (3) over one representative per case-behaviour class), values per "
           "datatype over character-class alphabets (upper and lower case wherever letters can occur) in 8 value roles (key, "
           "multikey, '+' key, '+' multikey, each from the text and as a schema default), declared key names <= 4 over "
           "{a,B,1,-,_}.",
    "C06": "naming axis (outer resource named by absolute / relative path, bare name, file:/// and file:/ URL, dot segments, "
           "through a symbolic link to the file / to its directory; fragments stored as symbolic links), %import lines in "
           "the seed alphabet (398 texts over two generated packages, every cut set), 74 control / non-ASCII characters "
           "inside values, comments, %define values and section names.",
    "C07": "validator file sequences: 161 file kinds (heads: %import of six components and packages, %define, %include of a "
           "valid / invalid / importing resource; 7 bodies), all singles, all ordered pairs, all triples over a sub-alphabet "
           "(thorough: 84^3 triples, 18^4 quadruples); status and exact stderr against each file judged alone; every pair "
           "also through one shared ConfigLoader (error family only).",
    "C08": "addressing axis: 7 ways of opening the main resource (URL argument, loadURL, URL from file.name; no URL, '', "
           "<stdin>) x relative / absolute %include references x all 32 base fault kinds at every line; line-shape axis: 11 "
           "key-line fault families x 2 key spellings x 7 value shapes (bare key, trailing blanks, literal, inner blanks, "
           "'$$', defined name, name with empty value).",
    "C10": "prefix axis: every combination of five prefix positions (354) x every datatype-bearing attribute (14-17 slots, the "
           "prefix-bearing element itself included) x 15 names, each resolving under exactly one level or under all, in three "
           "layouts (one schema; types in an imported component; a base schema file), judged by a reference written from the "
           "documentation (vz/ref/schemaprefix.py).",
    "C11": "inherited children whose attribute differs from their key name x one added child over every (kind, key name, "
           "attribute) of the pool of occupied names (6 036 / 53 744 schemas); import graphs with back edges (every package "
           "imports every list <= 2 over all three packages, itself included, imports before / after its own types; %import "
           "texts entering the same graphs); schema-extends set-ups of up to 3 base documents x key type per document with "
           "capitalised names and '+' defaults (564).",
    "C12": "spellings and sites of a component reference: 6 spellings (package alone, file='component.xml', another file of the "
           "package, dotted sub-package, prefix-relative, missing file) x 4 sites (<import> in the schema, inside an imported "
           "component, in a schema taken over with <import src>, %import in the text), every sequence of <= 2 schema-level "
           "references x own / src abstract type (235 / 1 099 schema variants).",
    "C13": "datatype-name axis: 28 more operations (%import of a generated component whose key / section-type datatype name has "
           "one of 14 shapes: stock, stock in another case, dotted known / new / prefix-relative, every suffix and prefix of "
           "the new dotted name, last component of a known name, unresolvable, other case), all sequences <= 3 (thorough 4 "
           "below core prefixes), fresh-schema differential plus a model of the registry's memo.",
    "C14": "finishing variants of every schema (schema / section datatypes: none, two distinguishable wrappers, one refusing a "
           "marked value; handlers on the schema and on every item: 5 quick / 13 thorough) with the outcome = value tree + what "
           "the handler object delivers; a top-level key with a default in every schema (override of a key absent from the "
           "text).",
    "C15": "whitespace axis: every string over {SP, TAB, CR, FF, U+2003} (singles, pairs; thorough 11 characters, triples) "
           "before / after every non-blank line, blank-line contents and comment forms at every position, last line "
           "terminated or not (thorough also CRLF); derivation axis: containers that inherit named keys / a wildcard from a "
           "base type under another key type (18 / 27 variants, 126 / 1 782 schemas).",
    "C16": "where an item is declared: handler-bearing items inherited through extends (one / two steps, own key type, split "
           "between base and derived; 296 / 11 088 schemas); what the loader object served before: ConfigLoader and "
           "ExtendedConfigLoader serve a prior text (ancestors of the text, the text plus a late fault behind closed / inside "
           "open sections) before the text; %import sessions (import, plain, import, failing import, plain) on one loader.",
    "C17": "every code point also at the start of a key line that is not the first line of the text but becomes the first line "
           "of its serialisation.",
    "C19": "every fault point also with an exception that is not an Exception (BaseException subclass).",
    "C20": "part (h): 1-3 handler sections assigned to files by every set partition (sections sharing a path), each handler "
           "unused or used (a record logged at every factory call), all operation sequences to length 3-4 (thorough 4-5) and "
           "a breadth-first search to depth 4 (6) over 150 configurations, against a registry model with use().",
}
for _k, _v in WAVE5.items():
    CHECKS[_k]["text"] = CHECKS[_k]["text"].rstrip() + " Wave 5: " + _v

WAVE6 = {'C11': ' Wave 6: schema-extends chains whose documents live in different directories (references relative to the containing document).', 'C04': " Wave 6: '$(NAME)' errors must carry the name exactly as written; one reading of 'letter' for all non-ASCII letters, judged against a probe letter.", 'C05': ' Wave 6: name tokens judged after their lower-cased twin already holds the same value (main and included resource); values with a reference at the edge next to a blank.', 'C06': ' Wave 6: accepted seeds with their last closer missing (fragments that leave a section open while the rest of the text is fine); decoy files in the working directory wherever a reference read as cwd-relative would lead.', 'C08': " Wave 6: every resource through the loader's own openResource (bytes from a URL stream) with leading blank lines.", 'C10': ' Wave 6: default= attribute on a wildcard key.', 'C12': " Wave 6: '%import' arguments of two words.", 'C15': ' Wave 6: seeds with value-less definitions.', 'C16': ' Wave 6: names mapped to None supplied in upper case; a case-variant duplicate holding None next to functions.', 'C19': ' Wave 6: URL-stream reads that deliver bytes which are not valid UTF-8.'}
for _k, _v in WAVE6.items():
    CHECKS[_k]["text"] = CHECKS[_k]["text"].rstrip() + _v

NOT_APPLICABLE = {}


def main():
    checks = []
    na = []
    props = [json.loads(l)["id"] for l in open(os.path.join(ROOT, "properties.jsonl"))]
    for pid in props:
        c = CHECKS.get(pid)
        have = os.path.exists(os.path.join(ROOT, "vz", "props", pid.lower() + ".py"))
        if c and have:
            checks.append({
                "property_id": pid,
                "quick_cmd": "./check %s --tier quick" % pid,
                "thorough_cmd": "./check %s --tier thorough" % pid,
                "evidence_file": "/verif/evidence/%s.json" % pid,
                "replay_cmd_template": "./check %s --replay {path}" % pid,
                "engine": c["engine"],
                "level_claimed": {"category": c["category"], "text": c["text"],
                                  "design_ref": c["design"]},
                "level_note": c["note"],
                "technique": c["technique"],
            })
        else:
            na.append({"property_id": pid,
                       "reason": NOT_APPLICABLE.get(pid, "check not built yet (work in progress; "
                                                         "the design in DESIGN.md applies)")})
    m = {
        "version": 1,
        "setup_cmd": "true",
        "hooks": {
            "guard": "ZCONFIG_VERIF",
            "enable": "no source hooks are needed: checks import ZConfig from /repo/src (editable "
                      "install) and observe it through public extension points",
            "baseline_off_cmd": "cd /repo && /venv/bin/python -m pytest -ra -q -p no:cacheprovider "
                                "--timeout=900 --continue-on-collection-errors",
            "source_commits": [],
            "add_only": True,
        },
        "engines": [
            {"name": "E1 enumerate", "path": "vz/core.py", "serves_properties": ["C03", "C04", "C09", "C17", "C18"],
             "kind_free_text": "exhaustive lexicographic enumeration of strings/tuples, sharded by prefix over a fork pool"},
            {"name": "E2 bfs", "path": "vz/engine/bfs.py", "serves_properties": ["C01", "C02", "C05", "C11", "C12", "C13", "C16", "C20"],
             "kind_free_text": "explicit-state BFS over the real transition function, states rebuilt by replaying event histories, canonicalised and deduplicated"},
            {"name": "E3 deviate", "path": "vz/engine/deviate.py", "serves_properties": ["C06", "C07", "C08", "C10", "C14", "C15"],
             "kind_free_text": "deviation-bounded exploration: all 0/1/2-subsets of deviation sites of a seed"},
            {"name": "E4 faults", "path": "vz/engine/faults.py", "serves_properties": ["C19"],
             "kind_free_text": "fault-point enumeration: count the points of a scenario, re-run once per point"},
            {"name": "E5 dfa", "path": "vz/engine/dfa.py", "serves_properties": ["C09"],
             "kind_free_text": "product-automaton reachability for regex language equivalence"},
        ],
        "checks": checks,
        "not_applicable": na,
        "notes": "All checks: exit 0 held / 1 VIOLATION / 3 harness error. VERIF_SEED rotates shard "
                 "order and sample choice only. Known findings: /verif/known_findings.json.",
    }
    with open(os.path.join(ROOT, "MANIFEST.json"), "w") as f:
        json.dump(m, f, indent=1)
        f.write("\n")
    print("claimed:", [c["property_id"] for c in checks])
    print("not claimed:", [c["property_id"] for c in na])


if __name__ == "__main__":
    main()
