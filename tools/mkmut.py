#!/usr/bin/env python3
"""mkmut.py NAME FILE OLD NEW [FILE OLD NEW ...] -> /verif/mutants/NAME.diff

Builds a patch against /repo HEAD by exact string replacement (OLD must occur exactly
once in FILE) in a scratch worktree; /repo itself is never modified."""
import subprocess, sys, os, shutil
name = sys.argv[1]
triples = sys.argv[2:]
assert len(triples) % 3 == 0 and triples
wt = "/dev/shm/mkmut-%d" % os.getpid()
subprocess.run(["git", "-C", "/repo", "worktree", "add", "--detach", wt, "HEAD"], check=True,
               capture_output=True)
try:
    for i in range(0, len(triples), 3):
        f, old, new = triples[i:i + 3]
        p = os.path.join(wt, f)
        s = open(p).read()
        assert s.count(old) == 1, "OLD occurs %d times in %s" % (s.count(old), f)
        open(p, "w").write(s.replace(old, new))
    d = subprocess.run(["git", "-C", wt, "diff"], capture_output=True, text=True).stdout
    assert d.strip()
    open("/verif/mutants/%s.diff" % name, "w").write(d)
    print("wrote /verif/mutants/%s.diff" % name)
finally:
    subprocess.run(["git", "-C", "/repo", "worktree", "remove", "--force", wt], capture_output=True)
    shutil.rmtree(wt, ignore_errors=True)
    subprocess.run(["git", "-C", "/repo", "worktree", "prune"], capture_output=True)
