"""E4 - fault-point enumeration: observation and injection harness.

`Instrument` observes one load of the REAL ZConfig loaders from inside the checking
process (nothing in /repo is touched):

* `ZConfig.loader.BaseLoader.createResource` is wrapped at class level (an `%import` inside a
  configuration load builds a plain `SchemaLoader` internally, so subclassing one loader would
  miss resources).  Every `Resource` handed out is registered, and its file is replaced by a
  `FileProxy` that counts `readline()` / `read()` calls and can raise on the i-th one.  For
  `read(n)` with n > 0 the proxy returns at most one line (a legal short read), so "reading
  line i" is a fault point of XML (schema / component) resources, too: xml.sax feeds expat
  with whatever `read` returns until it returns ''.
* `urllib.request.urlopen` (the function ZConfig.loader calls as `urllib.request.urlopen`) is
  wrapped: the j-th open can raise; every stream returned is wrapped in a `StreamProxy`
  whose `read()` can raise and whose `close()` is recorded.
* `ZConfig.loader.openPackageResource` is wrapped the same way (open of a package resource).
* `vz.harness.vzdt.HOOK` is set, so the k-th call of `vzdt.conv` / `vzdt.keyt` and the i-th
  call of `vzdt.sect` are fault points.

A fault is a tuple (kind, a, b, exc):
  ("open", o, None, exc)     the o-th open (urlopen / openPackageResource call) raises
  ("rawread", o, None, exc)  read() of the URL stream of the o-th open raises
  ("read", r, i, exc)        the i-th readline()/read() of the r-th created Resource raises
  ("conv", k, None, exc)     the k-th datatype conversion raises
  ("sect", s, None, exc)     the s-th section datatype call raises
All indices are 0-based except i, which is 1-based.  In `record` mode every point passed is
appended to `points` together with the nesting depth (number of Resources open at that
moment, not counting the resource being read).
"""
import os
import sys
import urllib.error
import urllib.request

from vz.harness import vzdt


class InjectedFault(RuntimeError):
    """Distinctive exception that is neither an OSError nor a ValueError."""


class InjectedInterrupt(BaseException):
    """Stands for KeyboardInterrupt / SystemExit / GeneratorExit: an exception that `except Exception` does not see.
    A load may end this way at any fault point too ("however the load ends")."""


def make_exc(name):
    if name == "interrupt":
        return InjectedInterrupt("vz-injected-fault")
    if name == "oserror":
        return OSError("vz-injected-fault")
    if name == "urlerror":
        return urllib.error.URLError("vz-injected-fault")
    if name == "valueerror":
        return ValueError("vz-injected-fault")
    if name == "custom":
        return InjectedFault("vz-injected-fault")
    raise ValueError(name)


def short(url):
    url = str(url)
    if url.startswith("package:"):
        return url
    return url.rsplit("/", 1)[-1]


class FileProxy:
    """Stands in for the file of a Resource."""

    def __init__(self, inst, f, r):
        self._inst = inst
        self._f = f
        self._r = r
        self.close_calls = 0

    def readline(self, *a):
        self._inst._on_read(self._r)
        return self._f.readline(*a)

    def read(self, n=-1):
        self._inst._on_read(self._r)
        if n is None or n < 0:
            return self._f.read()
        if n == 0:
            return self._f.read(0)
        return self._f.readline(n)

    def close(self):
        self.close_calls += 1
        self._f.close()

    @property
    def closed(self):
        return self._f.closed

    def __getattr__(self, name):
        return getattr(self._f, name)


class StreamProxy:
    """Stands in for what urlopen returned."""

    def __init__(self, inst, f, o, url):
        self._inst = inst
        self._f = f
        self._o = o
        self.url = url
        self.close_calls = 0
        self.was_closed = False

    def read(self, *a):
        self._inst._on_rawread(self._o)
        data = self._f.read(*a)
        if self._inst.garbage:
            # fault variant "garbage": the read succeeds and delivers bytes that are not valid UTF-8
            self._inst.garbage = False
            return b"\xff\xfe" + data
        return data

    def close(self):
        self.close_calls += 1
        self.was_closed = True
        self._f.close()

    @property
    def closed(self):
        return self.was_closed

    def __getattr__(self, name):
        return getattr(self._f, name)


_VIA_SKIP = ("createResource", "openResource", "_create")


class Instrument:
    def __init__(self):
        self.installed = False
        self.active = False
        self._reset()

    def _reset(self):
        self.fault = None
        self.garbage = False
        self.fired = False
        self.record = False
        self.points = []
        self.resources = []     # dicts: r, url, res, proxy, depth, via, reads, given
        self.opens = []         # dicts: o, url, how, depth, stream
        self.counts = {"conv": 0, "sect": 0}
        self.early = []         # problems seen while the load was running

    # -- installation ------------------------------------------------------
    def install(self):
        import ZConfig.loader as L
        assert not self.installed
        self._L = L
        self._orig_create = L.BaseLoader.__dict__["createResource"]
        self._orig_urlopen = urllib.request.urlopen
        self._orig_pkg = L.openPackageResource
        self._orig_hook = vzdt.HOOK
        inst = self

        def createResource(loader, file, url):
            return inst._create(loader, file, url)

        def urlopen(url, *a, **k):
            return inst._urlopen(url, *a, **k)

        def openPackageResource(package, path):
            return inst._pkgopen(package, path)

        createResource.__doc__ = self._orig_create.__doc__
        L.BaseLoader.createResource = createResource
        urllib.request.urlopen = urlopen
        L.openPackageResource = openPackageResource
        vzdt.HOOK = self._dt
        self.installed = True

    def uninstall(self):
        if not self.installed:
            return
        L = self._L
        L.BaseLoader.createResource = self._orig_create
        urllib.request.urlopen = self._orig_urlopen
        L.openPackageResource = self._orig_pkg
        vzdt.HOOK = self._orig_hook
        self.installed = False
        self.active = False

    def __enter__(self):
        self.install()
        return self

    def __exit__(self, *a):
        self.cleanup()
        self.uninstall()

    # -- one observed load -------------------------------------------------
    def begin(self, fault=None, record=False):
        self.cleanup()
        self._reset()
        self.fault = tuple(fault) if fault else None
        self.record = record
        self.active = True

    def end(self):
        self.active = False

    def open_depth(self):
        n = 0
        for rec in self.resources:
            if not rec["res"].closed:
                n += 1
        return n

    def _hit(self, kind, a, b, depth, url):
        if self.record:
            self.points.append({"kind": kind, "a": a, "b": b, "depth": depth, "url": short(url)})
        f = self.fault
        if f is not None and f[0] == kind and f[1] == a and f[2] == b and not self.fired:
            self.fired = True
            if f[3] == "garbage":
                self.garbage = True
                return
            raise make_exc(f[3])

    # -- wrappers ----------------------------------------------------------
    def _via(self):
        fr = sys._getframe(2)
        n = 0
        while fr is not None and n < 12:
            fn = fr.f_code.co_filename
            if os.sep + "ZConfig" + os.sep in fn and fr.f_code.co_name not in _VIA_SKIP:
                return fr.f_code.co_name
            fr = fr.f_back
            n += 1
        return "?"

    def _create(self, loader, file, url):
        if not self.active:
            return self._orig_create(loader, file, url)
        for op in self.opens:
            s = op["stream"]
            if s is not None and not s.closed:
                self.early.append({"kind": "url-stream-still-open-when-resource-created",
                                   "stream": short(s.url), "resource": short(url)})
        r = len(self.resources)
        depth = self.open_depth()
        via = self._via()
        proxy = FileProxy(self, file, r)
        res = self._orig_create(loader, proxy, url)
        self.resources.append({"r": r, "url": url, "res": res, "proxy": proxy, "depth": depth,
                               "via": via, "reads": 0, "given": via == "loadFile",
                               "loader": type(loader).__name__})
        return res

    def _on_read(self, r):
        if not self.active:
            return
        rec = self.resources[r]
        rec["reads"] += 1
        self._hit("read", r, rec["reads"], rec["depth"], rec["url"])

    def _new_open(self, url, how):
        o = len(self.opens)
        op = {"o": o, "url": url, "how": how, "depth": self.open_depth(), "stream": None}
        self.opens.append(op)
        return op

    def _urlopen(self, url, *a, **k):
        if not self.active:
            return self._orig_urlopen(url, *a, **k)
        op = self._new_open(url, "url")
        self._hit("open", op["o"], None, op["depth"], url)
        real = self._orig_urlopen(url, *a, **k)
        sp = StreamProxy(self, real, op["o"], url)
        op["stream"] = sp
        return sp

    def _on_rawread(self, o):
        if not self.active:
            return
        op = self.opens[o]
        self._hit("rawread", o, None, op["depth"], op["url"])

    def _pkgopen(self, package, path):
        if not self.active:
            return self._orig_pkg(package, path)
        url = "package:%s:%s" % (package, path)
        op = self._new_open(url, "package")
        self._hit("open", op["o"], None, op["depth"], url)
        return self._orig_pkg(package, path)

    def _dt(self, kind, value):
        if not self.active:
            return
        k = self.counts[kind]
        self.counts[kind] = k + 1
        depth = self.open_depth() - 1
        self._hit(kind, k, None, depth, "")

    # -- oracle part 1: closure ---------------------------------------------
    def check(self):
        """Problems with the open/closed state of everything handed out so far.
        Call right after the observed API call returned or raised."""
        out = list(self.early)
        for rec in self.resources:
            res = rec["res"]
            closed = getattr(res, "closed", None)
            f = res.__dict__.get("file", "<unset>")
            if closed is not True or f is not None:
                out.append({"kind": "resource-not-closed", "via": rec["via"], "loader": rec["loader"],
                            "nested": rec["depth"] > 0, "resource": short(rec["url"]),
                            "closed": repr(closed), "file_is_none": f is None})
            elif not rec["proxy"].closed:
                out.append({"kind": "resource-closed-but-file-open", "via": rec["via"],
                            "loader": rec["loader"], "nested": rec["depth"] > 0,
                            "resource": short(rec["url"])})
        for op in self.opens:
            s = op["stream"]
            if s is not None and not s.closed:
                out.append({"kind": "url-stream-not-closed", "stream": short(s.url),
                            "nested": op["depth"] > 0})
        return out

    def cleanup(self):
        """Close whatever a (mutated) implementation left open."""
        for op in self.opens:
            s = op["stream"]
            if s is not None:
                try:
                    s._f.close()
                except Exception:
                    pass
        for rec in self.resources:
            try:
                rec["proxy"]._f.close()
            except Exception:
                pass
