"""Shared runner machinery: accumulators, worker pool, evidence, known findings.

Everything here is deterministic.  VERIF_SEED only rotates shard order and
chooses which explored cases are written out as samples; it never changes the
set of cases explored.
"""
import collections
import hashlib
import json
import multiprocessing
import os
import signal
import sys
import time
import traceback

ROOT = os.path.dirname(os.path.dirname(os.path.abspath(__file__)))
# VZ_SRC (tooling only: mutant / seeded-change runs in scratch worktrees) points the
# checks at another source tree; registered commands never set it.
REPO_SRC = os.path.join(os.path.realpath(os.environ.get("VZ_SRC") or "/repo/src"), "")
_OUT = os.environ.get("VZ_OUT") or ROOT          # tooling only, like VZ_SRC
EVIDENCE_DIR = os.path.join(_OUT, "evidence")
REPLAY_DIR = os.path.join(_OUT, "replays")
FINDINGS_FILE = os.path.join(ROOT, "known_findings.json")

EXIT_OK, EXIT_VIOLATION, EXIT_HARNESS = 0, 1, 3


class HarnessError(Exception):
    """The check itself is broken / vacuous / capped.  Exit status 3."""


class ShardTimeout(BaseException):
    pass


def seed():
    try:
        return int(os.environ.get("VERIF_SEED", "0"))
    except ValueError:
        return 0


def assert_repo_import():
    import ZConfig
    f = os.path.realpath(ZConfig.__file__)
    if not f.startswith(REPO_SRC):
        raise HarnessError("ZConfig imported from %s, not from %s" % (f, REPO_SRC))
    return f


def digest(obj):
    return hashlib.sha1(repr(obj).encode("utf-8", "backslashreplace")).hexdigest()[:16]


def jsonable(x, depth=0):
    """Best-effort conversion of a case description into JSON-able data."""
    if depth > 12:
        return repr(x)
    if x is None or isinstance(x, (bool, int, float, str)):
        return x
    if isinstance(x, bytes):
        return x.decode("latin-1")
    if isinstance(x, (list, tuple)):
        return [jsonable(i, depth + 1) for i in x]
    if isinstance(x, (set, frozenset)):
        return sorted((jsonable(i, depth + 1) for i in x), key=repr)
    if isinstance(x, dict):
        return {str(k): jsonable(v, depth + 1) for k, v in x.items()}
    return repr(x)


class Acc:
    """Mergeable accumulator of what one shard explored."""

    MAX_SAMPLES = 6
    MAX_VIOL = 40

    def __init__(self, stride=None):
        self.evaluations = 0
        self.nontrivial = 0
        self.states = 0
        self.transitions = 0
        self.traces = 0
        self.classes = collections.Counter()
        self.clauses = collections.Counter()
        self.extra = collections.Counter()
        self.samples = []
        self.violations = {}      # sig -> violation dict (smallest case kept)
        self.violations_total = 0
        self.caps = []
        self.current = None       # case being executed (for hang reports)
        self._stride = stride or (997 + 2 * (seed() % 50))
        self._n = seed() % 7

    # -- counting
    def ev(self, n=1):
        self.evaluations += n

    def nt(self, n=1):
        self.nontrivial += n

    def cls(self, k, n=1):
        self.classes[k] += n

    def clause(self, k, n=1):
        self.clauses[k] += n

    def sample(self, case):
        """Offer a case as a sample (cheap: only every stride-th is kept)."""
        self._n += 1
        if self._n % self._stride == 0 or len(self.samples) < 2:
            if len(self.samples) < self.MAX_SAMPLES:
                self.samples.append(jsonable(case() if callable(case) else case))
            else:
                self.samples[self._n % self.MAX_SAMPLES] = jsonable(
                    case() if callable(case) else case)

    def violation(self, kind, case, observed, expected, tags=None, size=None):
        """Record a violation.  `tags` describe the specific failing feature and
        are what known-findings signatures are matched against."""
        self.violations_total += 1
        tags = dict(tags or {})
        tags.setdefault("kind", kind)
        sig = json.dumps(tags, sort_keys=True, default=repr)
        if size is None:
            size = len(repr(case))
        old = self.violations.get(sig)
        if old is None and len(self.violations) >= self.MAX_VIOL:
            return
        if old is None or size < old["size"]:
            self.violations[sig] = {
                "kind": kind, "case": jsonable(case),
                "observed": jsonable(observed), "expected": jsonable(expected),
                "tags": jsonable(tags), "size": size,
                "count": (old["count"] if old else 0) + 1}
        else:
            old["count"] += 1

    def merge(self, o):
        self.evaluations += o.evaluations
        self.nontrivial += o.nontrivial
        self.states += o.states
        self.transitions += o.transitions
        self.traces += o.traces
        self.classes.update(o.classes)
        self.clauses.update(o.clauses)
        self.extra.update(o.extra)
        for s in o.samples:
            if len(self.samples) < self.MAX_SAMPLES:
                self.samples.append(s)
            else:
                self._n += 1
                if self._n % 3 == 0:
                    self.samples[self._n % self.MAX_SAMPLES] = s
        self.violations_total += o.violations_total
        for sig, v in o.violations.items():
            old = self.violations.get(sig)
            if old is None:
                if len(self.violations) < 4 * self.MAX_VIOL:
                    self.violations[sig] = v
            else:
                cnt = old["count"] + v["count"]
                if v["size"] < old["size"]:
                    self.violations[sig] = v
                self.violations[sig]["count"] = cnt
        self.caps.extend(o.caps)
        return self


# ----------------------------------------------------------------------------
# worker pool

_SHARD_FUNC = None


def _alarm(signum, frame):
    raise ShardTimeout()


def _run_shard(arg):
    idx, shard, budget = arg
    acc = Acc()
    old = signal.signal(signal.SIGALRM, _alarm)
    signal.setitimer(signal.ITIMER_REAL, budget)
    try:
        try:
            r = _SHARD_FUNC(shard, acc)
            if isinstance(r, Acc):
                acc = r
        except ShardTimeout:
            acc.violation("hang", {"shard": jsonable(shard), "current": jsonable(acc.current)},
                          "no result within %ss" % budget, "terminates",
                          tags={"kind": "hang"})
        finally:
            signal.setitimer(signal.ITIMER_REAL, 0)
            signal.signal(signal.SIGALRM, old)
    except HarnessError as e:
        return ("harness", "%s" % e, None)
    except BaseException:
        return ("harness", traceback.format_exc(), None)
    acc.current = None
    return ("ok", idx, acc)


def default_jobs():
    try:
        n = int(os.environ.get("VERIF_JOBS", "0"))
    except ValueError:
        n = 0
    return n or min(16, os.cpu_count() or 1)


def pmap(func, shards, acc=None, jobs=None, shard_budget=900.0):
    """Run func(shard, acc) over all shards in a fork pool and merge results.

    Shards must partition the explored space (distinct counts are summed)."""
    global _SHARD_FUNC
    acc = acc if acc is not None else Acc()
    shards = list(shards)
    if not shards:
        return acc
    rot = seed() % len(shards)
    order = list(range(len(shards)))
    order = order[rot:] + order[:rot]
    jobs = min(jobs or default_jobs(), len(shards))
    _SHARD_FUNC = func
    args = [(i, shards[i], shard_budget) for i in order]
    results = {}
    if jobs <= 1:
        it = map(_run_shard, args)
        for st, a, b in it:
            if st == "harness":
                raise HarnessError(a)
            results[a] = b
    else:
        ctx = multiprocessing.get_context("fork")
        trace = os.environ.get("VZ_PROGRESS")      # diagnostic only: shards done / total on stderr
        t0 = time.time()
        with ctx.Pool(jobs) as pool:
            for st, a, b in pool.imap_unordered(_run_shard, args, chunksize=1):
                if st == "harness":
                    pool.terminate()
                    raise HarnessError(a)
                results[a] = b
                if trace and (len(results) % max(1, len(args) // 20) == 0 or len(results) == len(args)):
                    sys.stderr.write("[pmap %s] %d/%d shards %.0fs\n" % (getattr(func, "__name__", "?"), len(results),
                                                                          len(args), time.time() - t0))
                    sys.stderr.flush()
    for i in sorted(results):      # merge in shard order: deterministic
        acc.merge(results[i])
    return acc


# ----------------------------------------------------------------------------
# known findings

def load_findings(prop):
    """Open findings for `prop` from known_findings.json and findings.d/*.json
    (committed files; never written at run time)."""
    files = []
    if os.path.exists(FINDINGS_FILE):
        files.append(FINDINGS_FILE)
    d = os.path.join(ROOT, "findings.d")
    if os.path.isdir(d):
        files += [os.path.join(d, n) for n in sorted(os.listdir(d)) if n.endswith(".json")]
    out = []
    for fn in files:
        with open(fn) as f:
            data = json.load(f)
        for e in data.get("findings", []):
            if e.get("property") == prop and e.get("status", "open") == "open":
                out.append(e)
    return out


def finding_matches(entry, viol):
    """A violation is attributed to a finding only if every key of the
    finding's signature is present with the same value in the violation's
    tags (the tags are computed by the check from the failing case)."""
    sig = entry.get("signature") or {}
    if not sig:
        return False
    tags = viol.get("tags") or {}
    for k, v in sig.items():
        if tags.get(k) != v:
            return False
    return True


# ----------------------------------------------------------------------------
# finishing a run

class Run:
    def __init__(self, prop, tier, level, rule, bounds=None, assumptions=None):
        self.prop = prop
        self.tier = tier
        self.level = level
        self.rule = rule
        self.bounds = bounds or {}
        self.assumptions = assumptions or []
        self.t0 = time.time()
        self.acc = Acc()
        self.notes = {}
        self.exhaustive = True
        self.min_nontrivial = 2
        self.failed_guards = []

    def require(self, cond, msg):
        """Vacuity / consistency guard: a failure makes the run exit 3 (after the
        evidence has been written and any violation reported)."""
        if not cond:
            self.failed_guards.append(msg)

    def finish(self):
        acc = self.acc
        os.makedirs(EVIDENCE_DIR, exist_ok=True)
        findings = load_findings(self.prop)
        known, fresh = [], []
        for sig in sorted(acc.violations, key=lambda s: (acc.violations[s]["size"], s)):
            v = acc.violations[sig]
            hit = None
            for e in findings:
                if finding_matches(e, v):
                    hit = e
                    break
            if hit is not None:
                known.append((hit, v))
            else:
                fresh.append(v)
        lines = []
        seen_f = set()
        for e, v in known:
            if e["id"] in seen_f:
                continue
            seen_f.add(e["id"])
            lines.append("KNOWN-FINDING: property=%s %s [%s]" % (self.prop, e["what"], e["id"]))
        status = EXIT_OK
        if fresh:
            os.makedirs(REPLAY_DIR, exist_ok=True)
            status = EXIT_VIOLATION
            for v in fresh[:12]:
                body = {"property": self.prop, "kind": v["kind"], "case": v["case"],
                        "observed": v["observed"], "expected": v["expected"],
                        "tags": v["tags"], "occurrences_in_this_run": v["count"]}
                path = os.path.join(REPLAY_DIR, "%s-%s.json" % (self.prop, digest(body)))
                with open(path, "w") as f:
                    json.dump(body, f, indent=1, sort_keys=True, default=repr)
                lines.append("VIOLATION property=%s replay=%s" % (self.prop, path))
                lines.append("  kind=%s observed=%s expected=%s case=%s" % (
                    v["kind"], _short(v["observed"]), _short(v["expected"]), _short(v["case"], 300)))
        wall = time.time() - self.t0
        if acc.caps:
            self.exhaustive = False
        cov = {
            "evaluations": int(acc.evaluations),
            "distinct_nontrivial": int(acc.nontrivial),
            "rule": self.rule,
            "samples": acc.samples[:Acc.MAX_SAMPLES] or [],
            "states": int(acc.states),
            "transitions": int(acc.transitions),
            "traces_validated_against_impl": int(acc.traces),
            "exhaustive": bool(self.exhaustive),
            "bounds": jsonable(self.bounds),
            "outcome_classes": dict(sorted(acc.classes.items())),
            "deciding_clauses": dict(sorted(acc.clauses.items())),
            "counters": dict(sorted(acc.extra.items())),
            "caps_hit": acc.caps,
            "failed_guards": list(self.failed_guards),
            "violations_total": int(acc.violations_total),
            "violations_attributed_to_known_findings": sorted(seen_f),
        }
        cov.update(self.notes)
        ev = {
            "property_id": self.prop, "tier": self.tier, "seed": seed(),
            "level": self.level, "coverage": cov,
            "assumptions": self.assumptions, "wall_s": round(wall, 3),
            "violations": len(fresh),
        }
        with open(os.path.join(EVIDENCE_DIR, "%s.json" % self.prop), "w") as f:
            json.dump(ev, f, indent=1, sort_keys=True, default=repr)
            f.write("\n")
        for l in lines:
            print(l)
        print("%s tier=%s evaluations=%d nontrivial=%d states=%d transitions=%d "
              "violations=%d known=%d wall=%.1fs" % (
                  self.prop, self.tier, acc.evaluations, acc.nontrivial, acc.states,
                  acc.transitions, len(fresh), len(known), wall))
        if self.failed_guards:
            for g in self.failed_guards:
                print("HARNESS: %s: vacuity/consistency guard: %s" % (self.prop, g))
            if status == EXIT_OK:
                return EXIT_HARNESS
        if status == EXIT_OK:
            if acc.caps:
                print("HARNESS: cap hit: %s" % acc.caps)
                return EXIT_HARNESS
            if acc.evaluations < 1 or acc.nontrivial < self.min_nontrivial or not acc.samples:
                print("HARNESS: vacuous run (evaluations=%d nontrivial=%d)" % (
                    acc.evaluations, acc.nontrivial))
                return EXIT_HARNESS
        return status


def _short(x, n=160):
    s = json.dumps(x, default=repr, ensure_ascii=True)
    return s if len(s) <= n else s[:n] + "..."


def exc_desc(e):
    """Stable description of an exception for violation reports."""
    tb = traceback.extract_tb(e.__traceback__)
    where = ""
    for fr in reversed(tb):
        if "/ZConfig/" in fr.filename:
            where = "%s:%s" % (os.path.basename(fr.filename), fr.name)
            break
    return {"class": type(e).__name__, "msg": str(e)[:200], "where": where}
