"""C03 - configuration text is read by the documented line grammar and nothing else.

E1: (i) every line of length <= L over a 15-class character alphabet, alone and
inside a section; (ii) every text of <= n lines over a line alphabet; (iii) E3:
a 40-line / depth-6 seed with every line replaced by every alphabet line (singly,
thorough: in pairs); (iv) every Unicode code point in four line contexts.
Two observers (ZConfigParser with a recording context; schemaless.loadConfigFile)
are compared with the reference scanner vz.ref.lines on events, tree, verdict and
error line.
"""
import io
import itertools

from vz import core
from vz.gen import texts as G
from vz.ref import lines as RL

URL = "file:///v/main.conf"


class RecSection:
    def __init__(self, type_, name, parent):
        self.type, self.name, self.parent = type_, name, parent
        self.keys = {}
        self.sections = []
        self.closed = False

    def addValue(self, key, value, position):
        self.keys.setdefault(key, []).append(value)
        self.ctx.log.append(("value", key, value, position[0] if position else None))
        if position is None or position[2] != URL or position[0] != self.ctx.parser.lineno:
            self.ctx.log.append(("bad-position", repr(position)))

    def tree(self):
        return {"type": self.type, "name": self.name, "keys": self.keys,
                "sections": [s.tree() for s in self.sections]}


class RecContext:
    def __init__(self):
        self.top = RecSection("", "", None)
        self.top.ctx = self
        self.log = []
        self.parser = None
        self.imports = []

    def startSection(self, container, type_, name):
        new = RecSection(type_, name, container)
        new.ctx = self
        container.sections.append(new)
        self.log.append(("start", type_, name, self.parser.lineno))
        return new

    def endSection(self, container, type_, name, newsect):
        ok = (isinstance(newsect, RecSection) and newsect.parent is container
              and not newsect.closed and newsect.type == type_ and newsect.name == name
              and container.sections and container.sections[-1] is newsect)
        if isinstance(newsect, RecSection):
            newsect.closed = True
        self.log.append(("end", type_, self.parser.lineno) if ok else
                        ("bad-end", type_, name, self.parser.lineno))

    def importSchemaComponent(self, pkgname):
        self.log.append(("import", pkgname, self.parser.lineno))
        if pkgname not in self.imports:
            self.imports.append(pkgname)

    def includeConfiguration(self, section, url, defines):
        shared = defines is self.parser.defines
        self.log.append(("include", url if shared else ("unshared-defines", url),
                         self.parser.lineno))


class Res:
    file = None
    url = URL


def observe_parser(text):
    import ZConfig
    from ZConfig.cfgparser import ZConfigParser
    ctx = RecContext()
    r = Res()
    r.file = io.StringIO(text)
    p = ZConfigParser(r, ctx)
    ctx.parser = p
    err = None
    try:
        p.parse(ctx.top)
    except ZConfig.SubstitutionReplacementError as e:
        err = ("missing", e.lineno, e.url)
    except ZConfig.SubstitutionSyntaxError as e:
        err = ("substsyntax", None, None)
    except ZConfig.ConfigurationSyntaxError as e:
        err = ("syntax", e.lineno, e.url)
    except Exception as e:
        err = ("internal", core.exc_desc(e), None)
    tree = ctx.top.tree()
    tree["imports"] = ctx.imports
    return ctx.log, tree, err, dict(p.defines)


def sec_tree(sec):
    return {"type": sec.type, "name": sec.name, "keys": {k: list(v) for k, v in sec.items()},
            "sections": [sec_tree(s) for s in sec.sections]}


def observe_schemaless(text):
    import ZConfig
    from ZConfig import schemaless
    try:
        top = schemaless.loadConfigFile(io.StringIO(text), URL)
    except NotImplementedError:
        return None, ("notimplemented", None, None)
    except ZConfig.SubstitutionReplacementError as e:
        return None, ("missing", e.lineno, e.url)
    except ZConfig.SubstitutionSyntaxError as e:
        return None, ("substsyntax", None, None)
    except ZConfig.ConfigurationSyntaxError as e:
        return None, ("syntax", e.lineno, e.url)
    except Exception as e:
        return None, ("internal", core.exc_desc(e), None)
    t = sec_tree(top)
    t["imports"] = list(top.imports)
    return t, None


def canon_events(events):
    out = []
    for ev in events:
        k = ev[0]
        if k == "start":
            out.append(("start", ev[1], ev[2], ev[4]))
            if ev[3]:
                out.append(("end", ev[1], ev[4]))
        elif k == "define":
            continue
        elif k == "include":
            out.append(("include", "file:///v/" + ev[1], ev[2]))
        else:
            out.append(ev)
    return out


def err_matches(obs, exp):
    """obs = (kind, lineno, url) ; exp = (lineno, kinds)"""
    if obs is None or obs[0] not in exp[1]:
        return False
    if obs[0] == "substsyntax":     # position of these is C08's business
        return True
    if obs[0] == "notimplemented":
        return True
    return obs[1] == exp[0] and obs[2] == URL


def nontrivial(ref):
    if not ref.ok:
        return True
    for ev in ref.events:
        if ev[0] != "value":
            return True
    return False


def check_text(text, acc, what):
    acc.current = text
    # observer A: parser + recording context
    ref = RL.parse(text)
    log, tree, err, defs = observe_parser(text)
    acc.ev()
    case = {"text": text, "via": "ZConfigParser+recording context", "space": what}
    if err is not None and err[0] == "internal":
        acc.violation("internal-error", case, err, "configuration error or success",
                      tags={"kind": "internal-error", "exc": err[1]["class"], "observer": "parser"})
    elif not ref.unspec:
        exp_events = canon_events(ref.events)
        if ref.ok:
            acc.cls("accepted")
            if err is not None:
                acc.violation("rejected-but-conforming", case, err, "accepted")
            else:
                if [e for e in log] != exp_events:
                    acc.violation("wrong-events", case, log, exp_events)
                else:
                    et = RL.to_tree(ref.events)
                    if tree != et:
                        acc.violation("wrong-tree", case, tree, et)
                    elif defs != ref.defs:
                        acc.violation("wrong-defines", case, defs, ref.defs)
        else:
            acc.cls("rejected-" + "/".join(sorted(ref.error[1])))
            if err is None:
                acc.violation("accepted-but-malformed", case, "accepted", list(ref.error[1]))
            elif not err_matches(err, ref.error):
                acc.violation("wrong-error", case, err, [ref.error[0], sorted(ref.error[1])])
            elif log != exp_events:
                acc.violation("wrong-events-before-error", case, log, exp_events)
    else:
        acc.cls("unspec")
    if nontrivial(ref):
        acc.nt()
    acc.extra["stack-verdict:%d:%s" % (ref.stackdepth if not ref.ok else 0,
                                        "ok" if ref.ok else "err")] += 1
    # observer B: the schema-less loader
    ref2 = RL.parse(text, on_define="refuse", on_include="refuse")
    t2, err2 = observe_schemaless(text)
    acc.ev()
    case2 = {"text": text, "via": "schemaless.loadConfigFile", "space": what}
    if err2 is not None and err2[0] == "internal":
        acc.violation("internal-error", case2, err2, "configuration error or success",
                      tags={"kind": "internal-error", "exc": err2[1]["class"], "observer": "schemaless"})
    elif not ref2.unspec:
        if ref2.ok:
            if err2 is not None:
                acc.violation("rejected-but-conforming", case2, err2, "accepted")
            else:
                et = RL.to_tree(ref2.events)
                if t2 != et:
                    acc.violation("wrong-tree", case2, t2, et)
        else:
            if err2 is None:
                acc.violation("accepted-but-malformed", case2, "accepted", sorted(ref2.error[1]))
            elif not err_matches(err2, ref2.error):
                acc.violation("wrong-error", case2, err2, [ref2.error[0], sorted(ref2.error[1])])
    acc.sample(lambda: {"text": text, "space": what,
                        "reference": "accepted" if ref.ok else [ref.error[0], sorted(ref.error[1])],
                        "observed_error": err})


def shard_lines(shard, acc):
    prefix, L = shard
    for n in range(0, L - len(prefix) + 1):
        for tail in itertools.product(G.CHAR_ALPHABET, repeat=n):
            line = prefix + "".join(tail)
            check_text(line, acc, "line")
            check_text("<x>\n" + line + "\n</x>", acc, "line-in-section")
    return acc


def shard_texts(shard, acc):
    first, n = shard
    A = G.LINE_ALPHABET
    if first is None:
        check_text("", acc, "text")
        return acc
    for m in range(0, n):
        for tail in itertools.product(A, repeat=m):
            lines = (A[first],) + tail
            check_text("\n".join(lines) + "\n", acc, "text")
    return acc


def shard_seed(shard, acc):
    order, lo, hi = shard
    seed = G.seed40()
    A = G.LINE_ALPHABET
    if order == 0:
        check_text("\n".join(seed) + "\n", acc, "seed")
        check_text("\n".join(seed), acc, "seed-no-final-newline")
    elif order == 1:
        for i in range(lo, hi):
            for a in A:
                t = list(seed)
                t[i] = a
                check_text("\n".join(t) + "\n", acc, "seed-1")
            t = list(seed)
            del t[i]
            check_text("\n".join(t) + "\n", acc, "seed-del")
    else:
        for i in range(lo, hi):
            for j in range(i + 1, len(seed)):
                for a in A:
                    for b in A:
                        t = list(seed)
                        t[i] = a
                        t[j] = b
                        check_text("\n".join(t) + "\n", acc, "seed-2")
    return acc


UNI_CONTEXTS = [("k", "v"), ("<a", "b>"), ("", "k v"), ("k v", ""), ("<a ", ">"), ("</a", ">")]


def shard_unicode(shard, acc):
    lo, hi, nctx = shard
    for cp in range(lo, hi):
        c = chr(cp)
        for pre, post in UNI_CONTEXTS[:nctx]:
            if pre == "</a":
                check_text("<a>\n" + pre + c + post, acc, "unicode")
            else:
                check_text(pre + c + post, acc, "unicode")
    return acc


def identifier_vocabulary():
    """Words a directive name could be confused with: every identifier visible on the parser, its contexts and
    their modules AS IMPORTED NOW (so a method added to the tree under test is included), cut at every '_'
    boundary, in three letter cases, plus near-misses of the three real directive names."""
    import ZConfig.cfgparser
    import ZConfig.loader
    import ZConfig.schemaless
    names = set()
    for obj in (ZConfig.cfgparser, ZConfig.cfgparser.ZConfigParser, ZConfig.schemaless, ZConfig.schemaless.Parser,
                ZConfig.schemaless.Context, ZConfig.schemaless.Section, ZConfig.loader.ConfigLoader,
                ZConfig.loader.BaseLoader, ZConfig):
        names |= set(dir(obj))
    words = set()
    for n in names:
        words.add(n)
        parts = [p for p in n.split("_") if p]
        for i in range(len(parts)):
            for j in range(i + 1, len(parts) + 1):
                words.add("_".join(parts[i:j]))
    for d in ("define", "import", "include"):
        for i in range(len(d) + 1):
            words.add(d[:i] + d[i + 1:])
            words.add(d[:i] + "x" + d[i:])
            words.add(d[:i] + "_" + d[i:])
        words.update([d + "s", d + "d", "handle_" + d, d.capitalize(), d.upper(), "un" + d])
    out = set()
    for w in words:
        if w and not any(c.isspace() for c in w):
            out.update([w, w.lower(), w.upper()])
    return sorted(out)


def shard_directives(shard, acc):
    lo, hi = shard
    for w in identifier_vocabulary()[lo:hi]:
        for line in ("%" + w + " x y", "%" + w, "%" + w + " p", "% " + w + " x"):
            check_text(line + "\n", acc, "directive-name")
            check_text("<s>\n  " + line + "\n</s>\n", acc, "directive-name-in-section")
        acc.extra["directive_names"] += 1
    return acc


def run(tier):
    L = 4 if tier == "quick" else 5
    n = 3 if tier == "quick" else 4
    nctx = 4 if tier == "quick" else len(UNI_CONTEXTS)
    run = core.Run(
        "C03", tier, "exploration",
        rule="(i) every line of length <= %d over the 15-class alphabet, alone and inside <x>..</x>; "
             "(ii) every text of <= %d lines over a %d-line alphabet; (iii) a 40-line depth-6 seed "
             "with every line replaced by every alphabet line / deleted (%s); (iv) every Unicode code "
             "point in %d line contexts; (v) '%%NAME arg' for every identifier visible on the parser / loader / "
             "schema-less classes and modules of the tree under test, cut at every '_' boundary, in three letter "
             "cases, plus near-misses of define/import/include.  Each text goes through two observers (ZConfigParser with a "
             "recording context, schemaless.loadConfigFile); events with line numbers, nested tree, "
             "verdict and error line are compared with the reference scanner.  Non-trivial = text with "
             "an event other than key/value, or rejected (counted once per distinct text; shards "
             "partition the space)." % (L, n, len(G.LINE_ALPHABET),
                                        "singly" if tier == "quick" else "singly and in pairs", nctx),
        bounds={"char_alphabet": G.CHAR_ALPHABET, "max_line_len": L, "line_alphabet": G.LINE_ALPHABET,
                "max_lines": n, "seed_lines": 40, "unicode_contexts": UNI_CONTEXTS[:nctx]},
        assumptions=["reference scanner vz/ref/lines.py is the documented grammar",
                     "whitespace = str.isspace(); lines are split on '\\n' only",
                     "which fault is reported when one line has several (e.g. illegal %define name and "
                     "bad '$' in its value) is unspecified"])
    A = G.CHAR_ALPHABET
    shards = [("", 1)] + [(a + b, L) for a in A for b in A]
    core.pmap(shard_lines, shards, run.acc)
    core.pmap(shard_texts, [(None, n)] + [(i, n) for i in range(len(G.LINE_ALPHABET))], run.acc)
    dev = [(0, 0, 0)] + [(1, i, i + 4) for i in range(0, 40, 4)]
    if tier != "quick":
        dev += [(2, i, i + 1) for i in range(0, 39)]
    core.pmap(shard_seed, dev, run.acc)
    step = 0x110000 // 64
    core.pmap(shard_unicode, [(lo, min(lo + step, 0x110000), nctx) for lo in range(0, 0x110000, step)],
              run.acc)
    nw = len(identifier_vocabulary())
    core.pmap(shard_directives, [(lo, lo + 100) for lo in range(0, nw, 100)], run.acc)
    sv = [k for k in run.acc.extra if k.startswith("stack-verdict:")]
    run.acc.states = len(sv)
    run.require(run.acc.classes.get("accepted", 0) > 1000, "few accepted texts")
    run.require(run.acc.classes.get("rejected-syntax", 0) > 1000, "few rejected texts")
    run.require(len(sv) >= 6, "open-section stack depth never varied: %s" % sv)
    return run


def replay(body):
    acc = core.Acc()
    for _ in range(2):
        check_text(body["case"]["text"], acc, "replay")
    for v in acc.violations.values():
        print("REPLAY violation:", v["kind"], "observed=", v["observed"], "expected=", v["expected"])
    print("replayed: %d violation signature(s)" % len(acc.violations))
    return 1 if acc.violations else 0
