"""C16 - the composite handler delivers every handled value exactly once, all or nothing.

Engine E2 (the C01 search, merge key extended by the shared handler list) over
schemas with `handler=` on every subset of {schema, each item of the container
under test, wrapper slots, a leaf key}.  On every accepted node the returned
handler object is exercised with complete / incomplete / None-holding /
case-duplicate / upper-cased maps and compared with the entry list the reference
model predicts (own items in schema order after all nested sections, nested
sections in closing order, schema handler last).

Wave 3 adds the axis HOW THE TEXT IS LOADED (see ROUTES below): every accepted node is loaded again
with every single command-line override that addresses a declared key of a section the text holds
(and of the top level), with override lists, through loader objects that serve two loads, through
an ExtendedConfigLoader without options and through %include; the oracle is the reference entry list
of the text edited as the override says (vz/ref/overrides.py).

Wave 5 adds two axes.  WHERE AN ITEM IS DECLARED (DECLS below): the items under test are declared in a base
type and reach the section of the text through `extends` (one or two derivation steps, with or without a key
type of the derived type's own; for two items also split between base and derived type), and the leaf key of
the implementers is inherited too (i2 extends i1).  WHAT THE LOADER OBJECT SERVED BEFORE (check_history): the
text is loaded on a loader object - ConfigLoader, ExtendedConfigLoader with the first specifier - that has
already served loads from an alphabet of prior texts: ancestors of the text, the text (or a prefix of it, its
sections still open) followed by a line that makes the load fail late, the text preceded by %import of a
schema component (accepted, and failing late).
"""
import io
import itertools

from vz import core
from vz.engine import bfs
from vz.gen import schema as M
from vz.harness import load as H
from vz.harness.dt import Wrapped
from vz.ref import match as R
from vz.ref import overrides as OV
from dataclasses import replace


# axis "where an item is declared" (wave 5): name -> (how many of the items under test the base type 'cutb'
# declares [None = all, 1 = the first], derivation steps between 'cutb' and 'cut', key type of 'cut' itself)
DECLS = {
    "own": None,
    "base": (None, 1, None),
    "base-two-steps": (None, 2, None),
    "base+own-keytype": (None, 1, "identifier"),
    "split": (1, 1, None),
    "split+own-keytype": (1, 1, "identifier"),
}
DECLS_1 = ("base", "base-two-steps", "base+own-keytype")
DECLS_2 = ("split", "base", "split+own-keytype")


def is_keyish(it):
    return isinstance(it, (M.Key, M.MultiKey))


def family(tier):
    return [m + ("own",) for m in family_own(tier)] + family_decl(tier)


def family_decl(tier):
    """the members whose items under test are inherited by the container under test"""
    fam = []
    sel1 = [x for x in M.selections(1) if x[1]]
    for placement in (1, 2):
        for lab, items in sel1:
            sites = ["schema", "item0", "lk", "cuts"] + (["mids"] if placement == 2 else [])
            for decl in DECLS_1:
                if tier != "quick":
                    # (every subset of the sites - 11 088 schemas - did not finish 5 % of its shards in 15 minutes on
                    # 16 cores: the thorough tier takes all sites on plus every single site at placement 1, all on at 2)
                    subsets = [tuple(sites)] + ([(x,) for x in sites] if placement == 1 else [])
                elif placement == 1:
                    subsets = [tuple(sites)] + ([("item0",)] if decl == "base" else [])
                else:
                    subsets = [tuple(sites)] if decl == "base" else []
                for sub in subsets:
                    fam.append((lab, items, placement, sub, 3, decl))
    for lab, items in M.selections(2):
        if len(items) != 2:
            continue
        # quick: the pairs of keys / multikeys (their containers hold no section slot: small state spaces)
        if not (is_keyish(items[0]) and is_keyish(items[1])):
            continue
        for placement in (1,):
            sites = ["schema", "item0", "item1", "lk", "cuts"] + (["mids"] if placement == 2 else [])
            for decl in (DECLS_2[:1] if tier == "quick" else DECLS_2):
                fam.append((lab, items, placement, tuple(sites), 3, decl))
    return fam


def family_own(tier):
    fam = []
    sel1 = M.selections(1)
    sel2 = M.selections(2)
    for placement in (0, 1, 2):
        for lab, items in sel1:
            sites = ["schema"] + ["item%d" % i for i in range(len(items))] + ["lk"]
            if placement >= 1:
                sites.append("cuts")
            if placement >= 2:
                sites.append("mids")
            if tier == "quick" and placement == 2:
                subsets = [tuple(sites)]
            else:
                subsets = [c for k in range(1, len(sites) + 1) for c in itertools.combinations(sites, k)]
            for sub in subsets:
                fam.append((lab, items, placement, sub, 3 if tier == "quick" else 4))
    for placement in ((1,) if tier == "quick" else (0, 1, 2)):
        for lab, items in sel2:
            sites = ["schema", "item0", "item1", "lk"] + (["cuts"] if placement >= 1 else []) + \
                    (["mids"] if placement >= 2 else [])
            subsets = [tuple(sites)]
            if tier != "quick":
                subsets += [("item0", "item1"), ("item1", "lk", "schema")]
                subsets += [tuple(x for x in sites if x != s) for s in sites]
            for sub in subsets:
                fam.append((lab, items, placement, sub, 3))
    return fam


def hname(site):
    # mixed case in the schema text: handler names are normalised as basic-keys
    return "H_%s" % site


def build(member):
    lab, items, placement, sub, depth = member[:5]
    decl = member[5] if len(member) > 5 else "own"
    items = tuple(replace(it, handler=hname("item%d" % i)) if ("item%d" % i) in sub else it
                  for i, it in enumerate(items))
    env = M.type_env(lk_handler=hname("lk") if "lk" in sub else None, l1_datatype=M.SECT_DT_WRAP)
    if "lk" in sub:
        # the leaf key of the implementers carries a handler too: sections of type i2 INHERIT it from i1
        env = tuple(replace(t, items=tuple(replace(it, handler=hname("ik")) if it.name == "ik" else it
                                           for it in t.items))
                    if isinstance(t, M.SType) and t.name == "i1" else t for t in env)
    kw = dict(cut_datatype=M.SECT_DT_WRAP, schema_datatype=M.SECT_DT_WRAP,
              schema_handler=hname("schema") if "schema" in sub else None,
              cuts_handler=hname("cuts") if "cuts" in sub else None,
              mids_handler=hname("mids") if "mids" in sub else None)
    if DECLS[decl] is None:
        return M.place(items, placement, env, **kw)
    assert placement >= 1, "only a section type can inherit"
    nbase, steps, own_kt = DECLS[decl]
    nbase = len(items) if nbase is None else nbase
    chain = (M.SType("cutb", items[:nbase]),)
    if steps == 2:
        chain += (M.SType("cutm", (), extends="cutb"),)
    return M.place(items[nbase:], placement, env + chain, cut_extends=chain[-1].name, cut_keytype=own_kt, **kw)


def inherited_names(member):
    """the (normalised) handler names of the items under test that the container under test inherits"""
    d = DECLS[member[5]]
    if d is None:
        return []
    nbase = len(member[1]) if d[0] is None else d[0]
    return [hname("item%d" % i).lower() for i in range(nbase) if "item%d" % i in member[3]]


def object_ids(v, out):
    """ids of every attribute value / section object reachable in a result."""
    out.add(id(v))
    if isinstance(v, Wrapped):
        object_ids(v.inner, out)
    elif hasattr(v, "getSectionAttributes"):
        for a in v.getSectionAttributes():
            object_ids(getattr(v, a), out)
    elif isinstance(v, list):
        for x in v:
            object_ids(x, out)
    elif isinstance(v, dict):
        for x in v.values():
            object_ids(x, out)


class Recorder:
    def __init__(self):
        self.calls = []

    def make(self, name):
        def cb(value, name=name):
            self.calls.append((name, value))
        return cb


# ---------------------------------------------------------------------------
# axis "what kind of object is mapped" (wave 2).  The statement speaks of "the callable" of an
# entry and exempts only entries mapped to None, so nothing about the callable but the fact that
# it can be called may influence delivery: not its truth value, its length, its equality with
# None or with other callables, its hashability, its type, nor what it returns.

LOG = []          # (name, value) in the order of the calls, whatever kind of callable was called


def _rec(name, value):
    LOG.append((name, value))


class _Obj:
    def __init__(self, name):
        self.name = name

    def __call__(self, value):
        _rec(self.name, value)

    def method(self, value):
        _rec(self.name, value)


class _BoolFalse(_Obj):
    def __bool__(self):
        return False


class _LenZero(_Obj):
    def __len__(self):
        return 0


class _BoolRaises(_Obj):
    def __bool__(self):
        raise RuntimeError("the truth value of a handler callable was asked for")


class _EqAnything(_Obj):
    """equal to everything (None, every other callable), with one common hash"""

    def __eq__(self, other):
        return True

    def __ne__(self, other):
        return False

    def __hash__(self):
        return 7


class _Unhashable(_Obj):
    __hash__ = None


class _ListRecorder(list):
    """keeps what it received in itself: empty (falsy, equal to []) until first called"""
    name = None

    def __call__(self, value):
        self.append(value)
        _rec(self.name, value)


def _returning(name, ret):
    def cb(value):
        _rec(name, value)
        return ret
    return cb


def _function(name):
    def cb(value):
        _rec(name, value)
    return cb


def _class(name):
    def __init__(self, value):
        _rec(name, value)
    return type("HandlerClass", (), {"__init__": __init__})


def _listrec(name):
    r = _ListRecorder()
    r.name = name
    return r


def _partial(name):
    import functools
    return functools.partial(_rec, name)


CALLABLE_KINDS = (
    ("function", _function),
    ("bound-method", lambda name: _Obj(name).method),
    ("partial", _partial),
    ("class", _class),
    ("object", _Obj),
    ("object-bool-false", _BoolFalse),
    ("object-len-zero", _LenZero),
    ("object-bool-raises", _BoolRaises),
    ("object-equal-to-anything", _EqAnything),
    ("object-unhashable", _Unhashable),
    ("empty-list-subclass", _listrec),
    ("returns-true", lambda name: _returning(name, True)),
    ("returns-false", lambda name: _returning(name, False)),
    ("returns-string", lambda name: _returning(name, "stop")),
)
KIND_NAMES = tuple(k for k, _ in CALLABLE_KINDS)
# one callable object mapped to every name: the values must still arrive once per entry, in order
SHARED_KINDS = ("function", "builtin-list-append", "empty-list-subclass", "object-bool-false",
                "object-equal-to-anything")
_CACHE = {}
_LISTRECS = []


def callable_of(kind, name):
    """the callable of this kind for this name (made once per process: the objects carry no state
    but the empty-list-subclass, which reset_log empties again)"""
    c = _CACHE.get((kind, name))
    if c is None:
        c = _CACHE[(kind, name)] = dict(CALLABLE_KINDS)[kind](name)
        if kind == "empty-list-subclass":
            _LISTRECS.append(c)
    return c


def reset_log():
    del LOG[:]
    for c in _LISTRECS:
        if c:
            del c[:]


def shared_callable(kind):
    """one callable object to be mapped to every name -> (callable, records_names)"""
    if kind == "builtin-list-append":
        return LOG.append, False              # a built-in bound method: records the bare values
    return callable_of(kind, "*"), True


_MK = []


def map_kinds():
    if not _MK:
        _MK.extend(_map_kinds())
    return _MK


def _map_kinds():
    import collections
    import collections.abc
    import types

    class PairsMapping(collections.abc.Mapping):
        def __init__(self, d):
            self._pairs = list(d.items())

        def __getitem__(self, k):
            for a, b in self._pairs:
                if a == k:
                    return b
            raise KeyError(k)

        def __iter__(self):
            return iter([a for a, _ in self._pairs])

        def __len__(self):
            return len(self._pairs)

    return (
        ("dict-reversed-insertion", lambda d: dict(reversed(list(d.items())))),
        ("ordered-dict-reversed", lambda d: collections.OrderedDict(reversed(list(d.items())))),
        ("mappingproxy", lambda d: types.MappingProxyType(dict(d))),
        ("abc-mapping", PairsMapping),
        ("userdict", collections.UserDict),
    )


def none_subsets(uniq, tier):
    """which sets of names are mapped to None (the empty set is the complete map and the sets of
    size 1 are variant 4 of the older part)"""
    n = len(uniq)
    full = n <= (3 if tier == "quick" else 6)
    sizes = (n - 1, n) + ((2,) if tier != "quick" or n <= 4 else ())
    for k in range(2 if n > 1 else 1, n + 1):
        if full or k in sizes:
            for c in itertools.combinations(uniq, k):
                yield c


def call(handler, mapping):
    import ZConfig
    try:
        handler(mapping)
        return ("ok",)
    except ZConfig.ConfigurationError as e:
        return ("config-error", str(e)[:120])
    except Exception as e:
        return ("internal", core.exc_desc(e))


TIER = "quick"        # set by run() before the workers are forked / by replay from the case


def check_callables(handler, exp, uniq, tier, bad, acc):
    """the wave-2 axes on one accepted node whose older variants all passed.
    exp = [(name, value object delivered to the plain function of variant 1)]."""
    names = [n for n, _ in exp]
    n_maps = 0

    def delivered(r, want, named=True):
        """did exactly the entries `want` (pairs of exp, in order) arrive?"""
        if r != ("ok",) or len(LOG) != len(want):
            return False
        for got, (nm, val) in zip(LOG, want):
            if named:
                if got[0] != nm or got[1] is not val:
                    return False
            elif got is not val:
                return False
        return True

    def seen(named=True):
        return [c[0] for c in LOG] if named else len(LOG)

    K = len(KIND_NAMES)
    # a. every name mapped to its own callable of one kind
    for k in KIND_NAMES:
        reset_log()
        r = call(handler, {nm: callable_of(k, nm) for nm in uniq})
        n_maps += 1
        acc.extra["callable-kind/" + k] += 1
        if not delivered(r, exp):
            return bad("callable-kind-changes-delivery", [r, seen()], names, callable=k, layout="uniform")
    # b. the kinds mixed: name i gets kind (i + r) mod K, for every r - each name meets each kind
    #    once, next to names that hold other kinds
    if len(uniq) >= 2:
        for rot in range(K):
            reset_log()
            m = {nm: callable_of(KIND_NAMES[(i + rot) % K], nm) for i, nm in enumerate(uniq)}
            r = call(handler, m)
            n_maps += 1
            if not delivered(r, exp):
                return bad("callable-kind-changes-delivery", [r, seen()], names,
                           callable="+".join(KIND_NAMES[(i + rot) % K] for i in range(len(uniq))),
                           layout="mixed")
        acc.extra["mixed-kind-nodes"] += 1
    # c. one callable object mapped to every name
    for k in SHARED_KINDS:
        reset_log()
        c, named = shared_callable(k)
        r = call(handler, {nm: c for nm in uniq})
        n_maps += 1
        want = [("*", v) for _, v in exp]
        if not delivered(r, want, named):
            return bad("shared-callable-changes-delivery", [r, seen(named)], len(exp), callable=k, layout="shared")
    # d. one name holds a callable of the kind, every other name is mapped to None
    if tier != "quick" and len(uniq) >= 2:
        for k in KIND_NAMES:
            for p in uniq:
                reset_log()
                r = call(handler, {nm: (callable_of(k, nm) if nm == p else None) for nm in uniq})
                n_maps += 1
                want = [e for e in exp if e[0] == p]
                if not delivered(r, want):
                    return bad("callable-kind-changes-delivery", [r, seen()], [e[0] for e in want],
                               callable=k, layout="single-among-none")
    # e. sets of names mapped to None
    for sub in none_subsets(uniq, tier):
        reset_log()
        r = call(handler, {nm: (None if nm in sub else callable_of("function", nm)) for nm in uniq})
        n_maps += 1
        want = [e for e in exp if e[0] not in sub]
        if not delivered(r, want):
            return bad("none-set-mishandled", [r, seen()], [e[0] for e in want], none_count=min(len(sub), 3),
                       all_none=len(sub) == len(uniq))
        acc.extra["none-sets"] += 1
        # wave 6: the same set, the names that hold None supplied in UPPER case (names are matched after
        # normalisation whatever they are mapped to)
        if sub:
            reset_log()
            r = call(handler, {(nm.upper() if nm in sub else nm): (None if nm in sub else callable_of("function", nm))
                               for nm in uniq})
            n_maps += 1
            if not delivered(r, want):
                return bad("none-set-mishandled", [r, seen()], [e[0] for e in want], none_count=min(len(sub), 3),
                           all_none=len(sub) == len(uniq), none_names="upper-case")
            acc.extra["none-sets-upper-case"] += 1
    # f. all or nothing when the names that are mapped hold None / falsy callables / the duplicate holds None
    for miss in (uniq if tier != "quick" else sorted(set((uniq[0], uniq[-1])))):
        for k in (None, "object-bool-false", "empty-list-subclass"):
            reset_log()
            r = call(handler, {nm: (callable_of(k, nm) if k else None) for nm in uniq if nm != miss})
            n_maps += 1
            if r[0] != "config-error" or LOG:
                return bad("incomplete-map-not-all-or-nothing", [r, seen()], ["config-error", []],
                           others=k or "None")
            reset_log()
            m = {nm: (callable_of(k, nm) if k else None) for nm in uniq}
            m[miss.upper()] = callable_of(k, miss) if k else None
            r = call(handler, m)
            n_maps += 1
            if r[0] != "config-error" or LOG:
                return bad("duplicate-name-not-all-or-nothing", [r, seen()], ["config-error", []],
                           others=k or "None")
            if k is None:
                # wave 6: every name holds a function and the case-variant duplicate of one name holds None
                reset_log()
                m = {nm: callable_of("function", nm) for nm in uniq}
                m[miss.upper()] = None
                r = call(handler, m)
                n_maps += 1
                if r[0] != "config-error" or LOG:
                    return bad("duplicate-name-not-all-or-nothing", [r, seen()], ["config-error", []],
                               others="functions", duplicate="None")
    # g. the kind of the mapping object and the order of its items
    for mk, make in map_kinds():
        reset_log()
        r = call(handler, make({nm: callable_of("function", nm) for nm in uniq}))
        n_maps += 1
        if not delivered(r, exp):
            return bad("mapping-kind-changes-delivery", [r, seen()], names, mapping=mk)
        if uniq:
            for miss in ((uniq[0], uniq[-1]) if tier != "quick" else (uniq[0],)):
                reset_log()
                r = call(handler, make({nm: callable_of("function", nm) for nm in uniq if nm != miss}))
                n_maps += 1
                if r[0] != "config-error" or LOG:
                    return bad("incomplete-map-not-all-or-nothing", [r, seen()], ["config-error", []], mapping=mk)
    reset_log()
    acc.extra["wave2_maps_checked"] += n_maps
    if len(exp) >= 2:
        acc.extra["falsy-callable-nodes-2+entries"] += 1
    return True


# ---------------------------------------------------------------------------
# axis "how the text is loaded" (wave 3).  The statement speaks of "the handler object returned with
# a configuration" - whichever public entry point produced the pair: loadConfigFile / loadConfig with
# or without override specifiers, a ConfigLoader / ExtendedConfigLoader object (which may serve several
# loads), text that arrives through %include.  The entries are those of the items "instantiated by the
# text"; an override replaces values, it neither adds nor removes an instantiated item, and the value
# delivered is "the same value that the value tree holds".

ROUTES = ("override", "override-list", "same-loader-two-loads",
          "extended-loader-without-options+whole-text-through-include", "same-loader-after-another-text")
ROUTES_QUICK = ROUTES[:4]
PART_URL = "file:///v/part.conf"

# ---------------------------------------------------------------------------
# axis "what the loader object served before" (wave 5).  The statement's entries are those of the items
# "instantiated by the text" - THE text of the load that returned the handler; whatever the same loader object
# was asked to load before (accepted or refused, with or without %import, which makes the loader switch to a
# private copy of the schema for good) contributes nothing and takes nothing away.
H_ROUTE = "loader-history"
I_ROUTE = "loader-history-with-%import"
LOADER_KINDS = ("ConfigLoader", "ExtendedConfigLoader+first-specifier")
# lines that make every load fail whatever the schema says ('qq' is no type of any schema of the family),
# raised from two different layers: the loader's startSection / the parser's section-end handling
FAULT_LINES = (("unknown-section-type", "<qq/>"), ("stray-section-end", "</qq>"))
IMPORT_PKG = "ZConfig.components.basic"      # ships with ZConfig; its component defines one section type
IMPORT_TYPES = {IMPORT_PKG: (M.SType("zconfig.basic.mapping", (M.Key("+", attribute="mapping"),)),)}


def prior_texts(hist, tier):
    """the alphabet of texts a loader has served before it loads the text of the node `hist`:
    (kind, text), accepted ones first, the failing ones after them.
    ancestor-k  : the text without its last k events, sections closed (accepted or refused - by the schema at
                  the end of a section or of the file, or because a specifier of the loader finds no section)
    fault:<f>@k/closed : that text followed by the failing line f at the top level (everything before it was
                  closed: each section's entries exist when the load fails)
    fault:<f>@k/open   : the failing line inside the innermost section the prefix leaves open (nested sections
                  closed earlier have delivered their entries, the open ones have not)
    quick: k = 0 for the faults, k = 1 for the ancestor; thorough: k <= 1 for the faults, k <= 2 for the
    ancestors."""
    n = len(hist)
    out = []
    for k in ((1,) if tier == "quick" else (1, 2)):
        if k <= n:
            out.append(("ancestor-%d" % k, H.render_events(hist[:n - k])))
    for k in ((0,) if tier == "quick" else (0, 1)):
        if k > n:
            continue
        h = hist[:n - k]
        closed = H.render_events(h)
        opened = H.render_events(h, close=False)
        for f, line in FAULT_LINES:
            out.append(("fault:%s@%d/closed" % (f, k), closed + line + "\n"))
            if opened != closed:
                out.append(("fault:%s@%d/open" % (f, k), opened + line + "\n"))
    return out


def prior_class(kind):
    """the prior's kind without its position"""
    if kind.startswith("ancestor"):
        return "ancestor"
    return kind.split("@")[0] + "/" + kind.rsplit("/", 1)[1]


def loader_of_kind(kind, sch, specs):
    import ZConfig.cmdline
    import ZConfig.loader
    if kind == "ConfigLoader":
        return ZConfig.loader.ConfigLoader(sch)
    ld = ZConfig.cmdline.ExtendedConfigLoader(sch)
    for sp in specs:
        ld.addOption(sp)
    return ld


def ov_value(dt, second=False):
    if dt in ("string", "null"):
        return "ow" if second else "ov"
    if dt == "integer":
        return "11" if second else "9"
    toks = [t for t in M.VALUE_TOKENS[dt] if R.convert(dt, t) is not R.BAD]
    return toks[-1 if second else 0]


def route_specs(S, events, tier):
    """Every override specifier 'path/key=value' whose path addresses a section the text holds (each
    component spelled by the section's name or by its type - the last one by both; the letter case of a
    component is C14's subject) - or the top level - and whose key is a declared key / multikey of that container (for a
    wildcard key: the undeclared name 'zz').  -> [(spec, n_components, spelling, is_multi, spec2, target)]
    where spec2 supplies a second value for the same key and target identifies (container, key)."""
    top = OV.section_tree(events)
    out = []

    def keys(node, prefix, how):
        tname = node.type.lower() if node.type else None
        for it in M.eff_items(S, tname):
            if isinstance(it, (M.Key, M.MultiKey)):
                k = "zz" if it.name == "+" else it.name
                path = "/".join(prefix + (k,))
                out.append((path + "=" + ov_value(it.datatype), len(prefix) + 1, how,
                            isinstance(it, M.MultiKey), path + "=" + ov_value(it.datatype, True),
                            (id(node), k)))

    def walk(node, prefix, how):
        keys(node, prefix, how)
        for ch in node.children:
            if not isinstance(ch, OV.Sec):
                continue
            sp = []
            if ch.name:
                sp.append((ch.name.lower(), "name"))
            sp.append((ch.type.lower(), "type"))
            sp = [(c, h) for c, h in sp if OV.resolve(node, c) is ch]
            for i, (c, h) in enumerate(sp):
                if i == 0:
                    walk(ch, prefix + (c,), h)
                else:
                    keys(ch, prefix + (c,), h)
    walk(top, (), "top")
    return out


def load_on(ld, text, url=H.URL):
    import ZConfig
    try:
        cfg, h = ld.loadFile(io.StringIO(text), url)
        return ("ok", cfg, h)
    except ZConfig.ConfigurationError as e:
        return ("rejected", e, None)
    except Exception as e:
        return ("internal", e, None)


_INCL = {}


def including_loader(base, sch, part_text):
    """a loader of class `base` whose public openResource serves PART_URL from memory"""
    cls = _INCL.get(base)
    if cls is None:
        class IncludingLoader(base):
            part = None

            def openResource(self, url):
                if str(url) == PART_URL:
                    return self.createResource(io.StringIO(self.part), PART_URL)
                return base.openResource(self, url)
        cls = _INCL[base] = IncludingLoader
    ld = cls(sch)
    ld.part = part_text
    return ld


def make_loader(sch, specs):
    import ZConfig.cmdline
    import ZConfig.loader
    if not specs:
        return ZConfig.loader.ConfigLoader(sch)
    ld = ZConfig.cmdline.ExtendedConfigLoader(sch)
    for sp in specs:
        ld.addOption(sp)
    return ld


def check_delivery(cfg, handler, exp, bad):
    """len, the complete map (sequence, values, identity with the tree's objects) and all-or-nothing with
    the first name missing.  -> the recorded calls, or None after a violation."""
    names = [n for n, _ in exp]
    try:
        n = len(handler)
    except Exception as e:
        bad("len-raises", core.exc_desc(e), len(exp))
        return None
    if n != len(exp):
        bad("wrong-length", n, len(exp))
        return None
    uniq = sorted(set(names))
    ids = set()
    object_ids(cfg, ids)
    rec = Recorder()
    r = call(handler, {nm: rec.make(nm) for nm in uniq})
    if r != ("ok",):
        bad("complete-map-refused", r, "ok")
        return None
    got = [c[0] for c in rec.calls]
    if got != names:
        bad("wrong-call-sequence", got, names)
        return None
    for (nm, val), (_, want) in zip(rec.calls, exp):
        if H.tree(val) != want:
            bad("wrong-value-delivered", [nm, repr(H.tree(val))], [nm, repr(want)])
            return None
        if isinstance(val, (list, dict, Wrapped)) or hasattr(val, "getSectionAttributes"):
            if id(val) not in ids:
                bad("delivered-object-not-in-tree", [nm, repr(H.tree(val))], "the tree's own object")
                return None
    if uniq:
        rec2 = Recorder()
        r = call(handler, {nm: rec2.make(nm) for nm in uniq[1:]})
        if r[0] != "config-error" or rec2.calls:
            bad("incomplete-map-not-all-or-nothing", [r, [c[0] for c in rec2.calls]], ["config-error", []])
            return None
    return rec.calls


def check_routes(S, sch, hist, text, base_exp, acc, case, tier, wide=True, few=True):
    """the wave-3 axis on one accepted node (>= 1 entry) whose other variants all passed.
    wide=False (quick tier, members with two items under test): single specifiers, the two-load session and the
    loader history without %import only.  few: the member has <= 1 item under test."""
    specs = route_specs(S, hist, tier)
    # override lists: every single specifier; the first together with the last; thorough: every two neighbours
    lists = [((s[0],), "override", s[1], s[2]) for s in specs]
    prim, seen_t = [], set()           # one specifier (the first spelling) per addressed (container, key)
    for s_ in specs:
        if s_[5] not in seen_t:
            seen_t.add(s_[5])
            prim.append(s_)
    if len(prim) >= 2 and wide:
        pairs = [(0, len(prim) - 1)]
        if tier != "quick":
            pairs += [(i, i + 1) for i in range(len(prim) - 1) if (i, i + 1) != pairs[0]]
        for i, j in pairs:
            lists.append(((prim[i][0], prim[j][0]), "override-list", max(prim[i][1], prim[j][1]),
                          prim[i][2] + "+" + prim[j][2]))

    def judge(obs, route, ovs, exp, detail=None, **tags):
        """-> (cfg, handler, exp, bad) when the load was accepted as the reference says, None when there is
        nothing to compare, False after a violation"""
        acc.ev()
        c = dict(case, route=dict({"kind": route, "overrides": list(ovs)}, **(detail or {})))
        tg = dict(tags, route=route)

        def bad(kind, observed, expected):
            acc.violation(kind, c, observed, expected, tags=dict(tg, kind=kind))
            return False
        if obs[0] == "internal":
            d = core.exc_desc(obs[1])
            acc.violation("internal-error", c, d, "a configuration and its handler",
                          tags=dict(tg, kind="internal-error", exc=d["class"], where=d["where"]))
            return False
        if exp is None:
            acc.cls("route:%s unspecified-or-refused-by-the-reference" % route)
            return None
        if obs[0] != "ok":
            acc.cls("route:%s verdict-disagreement(C14's)" % route)
            acc.extra["route_verdict_disagreements"] += 1
            return None
        acc.cls("route:%s accepted" % route)
        acc.extra["route/" + route] += 1
        if len(exp) >= 2:
            acc.nt()
        return obs[1], obs[2], exp, bad

    def expected(ovs):
        """(entries of the text edited as the overrides say, addressed containers) or (None, ()) """
        if not ovs:
            return base_exp, ()
        try:
            edited, addressed = OV.edit(S, hist, ovs)
        except OV.MustReject:
            return None, ()
        ref = R.decide(S, edited)
        if ref.verdict != "A":
            return None, ()
        return ref.entries, addressed

    def session(ovs, route, first_text, between=(), **tags):
        """one loader object serves two loads: first_text (None = the same text), then the text; between the two
        (wave 5, quick tier) the failing / shorter texts `between`"""
        ld = make_loader(sch, ovs)
        exp, addressed = expected(ovs)
        note(ovs, exp, addressed)
        detail = {"between_the_two_loads": [k for k, _ in between]} if between else None
        if between:
            tags = dict(tags, prior="all-in-sequence")
        if first_text is None:
            j1 = judge(load_on(ld, text), route, ovs, exp, step=1, **tags)
            if not j1:
                return j1 is None
            calls1 = check_delivery(*j1)
            if calls1 is None:
                return False
        else:
            j1 = None
            load_on(ld, first_text)
        late = 0
        for kind, ptext in between:
            o = serve(ld, kind, ptext, dict(case, route={"kind": route, "overrides": list(ovs)}),
                      dict(tags, route=route))
            if o is None:
                return False
            if o == "rejected" and kind.endswith("/closed"):
                late += 1
        j2 = judge(load_on(ld, text), route, ovs, exp, detail=detail, step=2, **tags)
        if not j2:
            return j2 is None
        if check_delivery(*j2) is None:
            return False
        if between:
            count_history(LOADER_KINDS[1], len(between), late)
        if j1 is not None:
            # the handler of the first load after the second load: unchanged
            h1, bad = j1[1], j1[3]
            if len(h1) != len(exp):
                return bad("first-handler-changed-by-second-load", len(h1), len(exp))
            rec = Recorder()
            r = call(h1, {nm: rec.make(nm) for nm, _ in exp})
            if r != ("ok",) or len(rec.calls) != len(calls1) or \
                    any(a[0] != b[0] or a[1] is not b[1] for a, b in zip(rec.calls, calls1)):
                return bad("first-handler-changed-by-second-load", [r, [c[0] for c in rec.calls]],
                           [c[0] for c in calls1])
        acc.extra["loader-sessions"] += 1
        return True

    # ---- wave 5: what the loader object served before
    nested = len(base_exp) - sum(1 for it in S.items if it.handler) - (1 if S.handler else 0)
    priors = prior_texts(tuple(hist), tier)

    def serve(ld, kind, ptext, c, tg):
        """one prior load; -> its outcome ('ok' / 'rejected'), or None after an internal error"""
        o = load_on(ld, ptext)
        if o[0] == "internal":
            d = core.exc_desc(o[1])
            acc.violation("internal-error", dict(c, prior=ptext), d, "a configuration or a configuration error",
                          tags=dict(tg, kind="internal-error", exc=d["class"], where=d["where"]))
            return None
        acc.cls("history-prior:%s %s" % (prior_class(kind), o[0]))
        return o[0]

    def count_history(lkind, n_priors, late):
        acc.extra["history-sessions/" + lkind] += 1
        acc.extra["history-prior-loads"] += n_priors
        if late and nested > 0:
            acc.extra["history-sessions-after-a-load-that-failed-behind-closed-handler-sections"] += 1

    def note(ovs, exp, addressed):
        if exp is None:
            return
        below = 0
        for node in addressed:
            if node.type is not None:
                below += sum(1 for it in M.eff_items(S, node.type.lower()) if it.handler)
        if below:
            acc.extra["override-loads-addressing-a-section-that-holds-handlers"] += 1
        if ovs and S.handler:
            acc.extra["override-loads-with-schema-handler"] += 1
        if ovs and max(len(o.split("=", 1)[0].split("/")) for o in ovs) >= 3:
            acc.extra["override-loads-two-sections-deep"] += 1

    # the first list (or no override at all) runs as a two-load session of one loader object
    first = lists[0] if lists else ((), "plain", 0, "none")
    if not session(first[0], "same-loader-two-loads", None,
                   between=priors if tier == "quick" and first[0] else (), components=first[2], by=first[3]):
        return False
    for ovs, route, ncomp, how in lists[1:]:
        exp, addressed = expected(ovs)
        if exp is None:
            # the reference refuses the edited text or is silent about it: nothing to compare (C14's subject)
            acc.cls("route:%s unspecified-or-refused-by-the-reference" % route)
            continue
        note(ovs, exp, addressed)
        j = judge(H.load(sch, text, overrides=list(ovs)), route, ovs, exp, components=ncomp, by=how)
        if j is False or (j and check_delivery(*j) is None):
            return False
    if wide:
        # the same text through an ExtendedConfigLoader that was given no option, the whole text arriving through
        # %include: one load does both - the including loader IS an option-less ExtendedConfigLoader
        import ZConfig.cmdline
        ld = including_loader(ZConfig.cmdline.ExtendedConfigLoader, sch, text)
        j = judge(load_on(ld, "%include part.conf\n"), ROUTES[3], (), base_exp)
        if j is False or (j and check_delivery(*j) is None):
            return False
    if tier != "quick":
        # a loader object (carrying the first specifier, if any) that has loaded another text before: this
        # text without its last event, accepted or not
        other = H.render_events(tuple(hist)[:-1])
        if not session(first[0], ROUTES[4], other, components=first[2], by=first[3]):
            return False
    def history(lkind, ovs, chosen, label):
        """one loader object serves the priors `chosen`, in order, and then the text"""
        exp, addressed = expected(ovs)
        if exp is None:
            acc.cls("route:%s unspecified-or-refused-by-the-reference" % H_ROUTE)
            return True
        ld = loader_of_kind(lkind, sch, ovs)
        tg = {"route": H_ROUTE, "loader": lkind, "prior": label}
        c = dict(case, route={"kind": H_ROUTE, "loader": lkind, "overrides": list(ovs),
                              "priors": [k for k, _ in chosen]})
        late = 0
        for kind, ptext in chosen:
            o = serve(ld, kind, ptext, c, tg)
            if o is None:
                return False
            if o == "rejected" and kind.endswith("/closed"):
                late += 1
        j = judge(load_on(ld, text), H_ROUTE, ovs, exp, detail={"loader": lkind, "priors": [k for k, _ in chosen]},
                  loader=lkind, prior=label)
        if j is False or (j and check_delivery(*j) is None):
            return False
        if j:
            count_history(lkind, len(chosen), late)
        return True

    # a ConfigLoader: all priors in sequence, then the text.  The ExtendedConfigLoader carrying the first
    # specifier: quick - the priors were served between the two loads of the session above; thorough - its own
    # session.  Thorough, members with <= 1 item under test: additionally one session per single prior of the
    # nearest positions (ancestor-1, faults @0), for both kinds of loader.
    for lkind in LOADER_KINDS:
        ovs = first[0] if lkind != "ConfigLoader" else ()
        if lkind != "ConfigLoader" and (tier == "quick" or not ovs):
            continue
        if not history(lkind, ovs, priors, "all-in-sequence"):
            return False
        if tier != "quick" and few:
            for pr in priors:
                if pr[0] == "ancestor-1" or "@0/" in pr[0]:
                    if not history(lkind, ovs, [pr], prior_class(pr[0])):
                        return False
    if wide:
        if not check_imports(S, sch, hist, text, base_exp, acc, case, tier, judge, serve, expected,
                             first[0] if tier != "quick" and few else None, few):
            return False
    acc.extra["route-nodes"] += 1
    if specs:
        acc.extra["route-nodes-with-overrides"] += 1
    return True


def check_imports(S, sch, hist, text, base_exp, acc, case, tier, judge, serve, expected, ext_specs, few):
    """one loader object serves texts with and without '%import <package>' as their first line, in every order
    of two: import -> plain, plain -> import, import -> import; and the plain text after an importing load that
    failed late.  Every accepted load's handler is checked.  The package's component defines a section type the
    text does not use: the reference (vz.ref.match.import_component) says the entries are those of the text."""
    ihist = (("i", IMPORT_PKG),) + tuple(hist)
    ref = R.decide(S, ihist, packages=IMPORT_TYPES)
    if ref.verdict != "A":
        raise core.HarnessError("the reference refuses an accepted text after %%import: %r" % (ihist,))
    exp_i = ref.entries
    itext = "%import " + IMPORT_PKG + "\n" + text
    ifault = itext + FAULT_LINES[0][1] + "\n"
    sessions = [("ConfigLoader", (), (("import", itext), ("plain", text), ("import", itext),
                                      ("fault", ifault), ("plain", text)))]
    if tier != "quick" and few:
        sessions.append(("ConfigLoader", (), (("plain", text), ("import", itext), ("fault", ifault),
                                              ("import", itext))))
        if ext_specs:
            sessions.append((LOADER_KINDS[1], ext_specs, sessions[0][2]))
    for lkind, ovs, steps in sessions:
        exp_plain, _ = expected(ovs)
        if exp_plain is None:
            continue
        if ovs:
            # the entries of the edited text: the import adds nothing to them
            exp_imp = exp_plain
        else:
            exp_imp = exp_i
        ld = loader_of_kind(lkind, sch, ovs)
        before = "fresh-loader"
        for n, (what, t) in enumerate(steps):
            tg = {"route": I_ROUTE, "loader": lkind, "this_load": what, "load_before": before}
            c = dict(case, route={"kind": I_ROUTE, "loader": lkind, "overrides": list(ovs),
                                  "loads": [w for w, _ in steps[:n + 1]]})
            if what == "fault":
                if serve(ld, "fault:unknown-section-type-after-import@0/closed", t, c, tg) is None:
                    return False
            else:
                j = judge(load_on(ld, t), I_ROUTE, ovs, exp_imp if what == "import" else exp_plain,
                          detail={"loader": lkind, "loads": [w for w, _ in steps[:n + 1]]},
                          loader=lkind, this_load=what, load_before=before)
                if j is False or (j and check_delivery(*j) is None):
                    return False
                if j:
                    acc.extra["import-history/%s-after-%s" % (what, before)] += 1
                    if S.handler and before != "fresh-loader":
                        acc.extra["import-history-loads-under-a-schema-handler-on-a-loader-that-imported"] += 1
            before = what
    return True


def check_case(S, sch, hist, text, acc, mid):
    obs = H.load(sch, text)
    ref = R.decide(S, hist)
    acc.ev()
    case = {"member": mid, "events": [list(e) for e in hist], "text": text}
    if obs[0] == "internal":
        d = core.exc_desc(obs[1])
        acc.violation("internal-error", case, d, ref.verdict,
                      tags={"kind": "internal-error", "exc": d["class"], "where": d["where"]})
        return False
    o = "A" if obs[0] == "ok" else "R"
    if ref.verdict == "U":
        acc.cls("unspecified")
        return False
    if o != ref.verdict:
        acc.cls("verdict-disagreement(C01's)")
        acc.extra["verdict_disagreements"] += 1
        return False
    if o == "R":
        acc.cls("rejected")
        return True
    cfg, handler = obs[1], obs[2]
    exp = ref.entries
    names = [n for n, _ in exp]
    acc.cls("accepted-%d-entries" % min(len(exp), 6))
    if len(exp) >= 2:
        acc.nt()
        acc.extra["decl-nodes-2+entries/" + mid.get("decl", "own")] += 1
    inh = mid.get("inherited_names")
    if inh and any(n in inh for n in names):
        acc.extra["nodes-with-an-inherited-handler-entry"] += 1
    acc.sample(lambda: dict(case, entries=names))

    def bad(kind, observed, expected, **tags):
        acc.violation(kind, case, observed, expected, tags=dict(tags, kind=kind))
        return False

    try:
        n = len(handler)
    except Exception as e:
        return bad("len-raises", core.exc_desc(e), len(exp))
    if n != len(exp):
        return bad("wrong-length", n, len(exp))
    uniq = sorted(set(names))
    ids = set()
    object_ids(cfg, ids)
    # 1. complete map
    rec = Recorder()
    r = call(handler, {nm: rec.make(nm) for nm in uniq})
    if r != ("ok",):
        return bad("complete-map-refused", r, "ok")
    first_calls = list(rec.calls)
    got = [c[0] for c in rec.calls]
    if got != names:
        return bad("wrong-call-sequence", got, names)
    for (nm, val), (_, want) in zip(rec.calls, exp):
        if H.tree(val) != want:
            return bad("wrong-value-delivered", [nm, repr(H.tree(val))], [nm, repr(want)])
        if isinstance(val, (list, dict, Wrapped)) or hasattr(val, "getSectionAttributes"):
            if id(val) not in ids:
                return bad("delivered-object-not-in-tree", [nm, repr(H.tree(val))], "the tree's own object")
    # 2. keys written in upper case are matched after basic-key normalisation
    rec = Recorder()
    r = call(handler, {nm.upper(): rec.make(nm) for nm in uniq})
    if r != ("ok",) or [c[0] for c in rec.calls] != names:
        return bad("upper-case-map-mishandled", [r, [c[0] for c in rec.calls]], names)
    for miss in uniq:
        # 3. one name unmapped: configuration error, nothing called
        rec = Recorder()
        r = call(handler, {nm: rec.make(nm) for nm in uniq if nm != miss})
        if r[0] != "config-error" or rec.calls:
            return bad("incomplete-map-not-all-or-nothing", [r, [c[0] for c in rec.calls]],
                       ["config-error", []])
        # 4. one name mapped to None: skipped, the others called once, in order
        rec = Recorder()
        r = call(handler, {nm: (None if nm == miss else rec.make(nm)) for nm in uniq})
        want = [x for x in names if x != miss]
        if r != ("ok",) or [c[0] for c in rec.calls] != want:
            return bad("none-entry-mishandled", [r, [c[0] for c in rec.calls]], want)
        # 5. a case-variant duplicate of one name: configuration error, nothing called
        rec = Recorder()
        m = {nm: rec.make(nm) for nm in uniq}
        m[miss.upper()] = rec.make(miss)
        r = call(handler, m)
        if r[0] != "config-error" or rec.calls:
            return bad("duplicate-name-not-all-or-nothing", [r, [c[0] for c in rec.calls]],
                       ["config-error", []])
    # 6. names no entry of this load uses: a single surplus name is harmless, two surplus names that
    #    normalise to the same key are refused, nothing called
    rec = Recorder()
    m = {nm: rec.make(nm) for nm in uniq}
    m["zz-unused"] = rec.make("zz-unused")
    r = call(handler, m)
    if r != ("ok",) or [c[0] for c in rec.calls] != names:
        return bad("surplus-name-mishandled", [r, [c[0] for c in rec.calls]], names)
    rec = Recorder()
    m = {nm: rec.make(nm) for nm in uniq}
    m["zz-unused"] = rec.make("zz-unused")
    m["ZZ-Unused"] = rec.make("zz-unused")
    r = call(handler, m)
    if r[0] != "config-error" or rec.calls:
        return bad("duplicate-unused-name-not-all-or-nothing", [r, [c[0] for c in rec.calls]], ["config-error", []])
    if not uniq:
        r = call(handler, {})
        if r != ("ok",):
            return bad("empty-map-refused", r, "ok")
    acc.extra["handler_calls_checked"] += 3 * len(uniq) + 5
    if not uniq:
        return True
    tier = mid.get("tier", TIER)
    if not check_callables(handler, [(c[0], c[1]) for c in first_calls], uniq, tier, bad, acc):
        return False
    few = len(mid["label"]) <= 1
    return check_routes(S, sch, hist, text, exp, acc, case, tier, wide=tier != "quick" or few, few=few)


def shard(member, acc):
    S, root = build(member)
    xml = M.render(S)
    sch = H.load_schema(xml)
    mid = {"label": list(member[0]), "placement": member[2], "handlers_on": list(member[3]),
           "depth": member[4], "schema": xml, "tier": TIER, "decl": member[5],
           "inherited_names": inherited_names(member)}
    bfs.explore(S, sch, root, member[4], acc, lambda h, t: check_case(S, sch, h, t, acc, mid),
                with_handlers=True)
    acc.extra["schemas"] += 1
    return acc


def run(tier):
    global TIER
    TIER = tier
    # Both tiers explore the quick schema family (the full family of the thorough tier - 29 241 schemas with the
    # wave-5 sessions on every node - was measured at about two hours on 16 cores and is not registered); the thorough
    # tier goes deeper per node: every route, every map variant, every name missing, longer prior histories.
    fam = family("quick")
    run = core.Run(
        "C16", tier, "model_checking",
        rule="the C01 breadth-first search (merge key = open-matcher state + the shared handler list) over "
             "schemas with handler= on every subset of {schema, items of the container under test, wrapper "
             "slots, leaf key} (all subsets for <= 1 item, selected subsets for 2 items); every accepted node: "
             "len(handler), call sequence and delivered values for the complete map, the upper-cased map, each "
             "single name missing / mapped to None / duplicated in another letter case, against the entry list of "
             "the reference model.  On every accepted node with >= 1 entry additionally the axis WHAT IS MAPPED: "
             "(a) every name mapped to its own callable of one kind, for every kind of the alphabet "
             "callable_kinds (plain function / bound method / partial / class / callable object; objects that are "
             "falsy by __bool__ or by __len__, whose __bool__ raises, that compare equal to None and to each other, "
             "that are unhashable, a list subclass that is empty until called; functions returning True / False / a "
             "string); (b) the kinds mixed, name i holding kind (i + r) mod K for every rotation r; (c) one "
             "shared callable object (shared_kinds) mapped to every name; (d, thorough) one name holding each kind "
             "while all others hold None; (e) every set of names mapped to None (bounds.none_sets); (f) each name "
             "missing / case-duplicated while the remaining names hold None, falsy objects or empty list "
             "subclasses; (g) the mapping object being each of mapping_kinds (reversed insertion order, "
             "OrderedDict (a dict subclass), mappingproxy, a non-dict collections.abc.Mapping, UserDict), complete and "
             "with the first (thorough: also the last) name missing.  Expected in every case: exactly the reference entries whose "
             "name holds a non-None object are called, once, in order, with the identical value objects; on "
             "missing / duplicate names a configuration error and no call.  "
             "On the same nodes additionally the axis HOW THE TEXT IS LOADED (routes): (h) EVERY single override "
             "specifier 'path/key=value' whose path addresses a section the text holds at any depth - each component "
             "spelled by the section's name if it has one, else by its type, the last component by both (the letter "
             "case of components is C14's subject), resolved by the first-match rule of "
             "C14's statement - or the top level, and whose key is a declared key / multikey of the addressed container "
             "(wildcard key: an undeclared name), loaded through loadConfigFile(overrides=); (i) override lists over "
             "the specifiers with distinct (container, key) targets: the first with the last (thorough: every two "
             "neighbours); (j) one "
             "loader object (ExtendedConfigLoader carrying the first specifier, ConfigLoader if the node offers none) "
             "serving two loads of the text - both handlers checked, and the first one again after the second load; "
             "(k) an ExtendedConfigLoader without options and (l) the whole text arriving through %include of a main "
             "file, in one load (an option-less ExtendedConfigLoader that includes); (m, thorough) "
             "a loader (carrying the first specifier, if any) that loaded a different text (the text without its last "
             "event) before.  Quick tier: (i) and (k, l) on the schemas with <= 1 item under test, (h) and (j) on all.  "
             "Expected on every route: len, call sequence and delivered values (identical with the "
             "objects of the tree returned by THAT load) equal to the reference entry list of the text edited as the "
             "overrides say (vz/ref/overrides.py + vz/ref/match.py), all-or-nothing with the first name missing.  "
             "Wave 5, axis WHERE AN ITEM IS DECLARED (bounds.declared_in): besides the members whose container under "
             "test declares its items itself, members whose section type 'cut' INHERITS them: all items declared in a "
             "base type 'cutb' that 'cut' extends directly (base), through an intermediate type (base-two-steps), or "
             "directly while 'cut' names a key type of its own (base+own-keytype, identifier); for two items also the "
             "first declared in 'cutb' and the second in 'cut' (split, split+own-keytype).  Every item kind of the menu "
             "(keys, multikeys, all name='+' keys / multikeys with and without defaults, sections, multisections) is "
             "inherited once; the reference entry list comes from the same model (base items first, in base order).  "
             "In every member the handler site 'lk' now also puts a handler on the key of i1, which sections of "
             "type i2 inherit.  Axis WHAT THE LOADER OBJECT SERVED BEFORE (routes loader-history, "
             "loader-history-with-%import), on every accepted node with >= 1 entry: (n) one ConfigLoader object "
             "serves every prior text of the alphabet bounds.prior_texts, in order, and then the text - priors: the "
             "text without its last k events (an ancestor in the search; accepted, or refused at the end of a section "
             "/ of the file), and the text without its last k events followed by a line no schema accepts, each of "
             "bounds.fault_lines, once at the top level behind all closed sections (their entries exist when the load "
             "fails) and once inside the innermost section the prefix leaves open; (o) the same priors on the "
             "ExtendedConfigLoader carrying the node's first specifier (there an ancestor that lacks the addressed "
             "section fails when the schema matcher finishes) - quick: served between the two loads of (j); thorough: "
             "a session of its own, (j) staying two loads in a row; (p, thorough, members with <= 1 item under test) one "
             "session per single prior of the nearest positions, both loader kinds; (q) one ConfigLoader serves, in "
             "this order, '%import <package>' + text, the text, '%import' + text again, '%import' + text + a failing "
             "last line, the text - every order of two of {importing, plain} plus plain after an importing load that "
             "failed late; all four accepted loads judged (quick: members with <= 1 item under test; thorough: all, and "
             "for <= 1 item also the order plain, import, failing import, import and the session (q) on the "
             "ExtendedConfigLoader with the first specifier).  The imported component (ZConfig.components.basic) "
             "defines one section type no text uses; the reference (vz.ref.match.import_component) gives the entries.  "
             "Expected after every history: exactly the reference entries of THE TEXT OF THAT LOAD (len, sequence, "
             "values, identity with that load's tree, all-or-nothing).  "
             "Non-trivial = accepted (text, route) with >= 2 handler entries.",
        bounds={"schemas": len(fam), "depth": sorted(set(m[4] for m in fam)),
                "callable_kinds": list(KIND_NAMES), "shared_kinds": list(SHARED_KINDS),
                "mapping_kinds": [k for k, _ in map_kinds()],
                "none_sets": "all subsets of the distinct names for <= %d names, else sizes 1, %sn-1, n"
                             % ((3, "2 (<= 4 names), ") if tier == "quick" else (6, "2, ")),
                "all_or_nothing_with_none_or_falsy_others": "first and last name" if tier == "quick" else "every name",
                "single_among_none": tier != "quick",
                "routes": list(ROUTES_QUICK if tier == "quick" else ROUTES),
                "override_paths": "every section of the text reachable by first-match addressing, all depths (<= 3 "
                                  "section components occur), components spelled by name if named else by type, "
                                  "the last component by both",
                "override_keys": "every declared key / multikey of the addressed container, 'zz' for a wildcard key; "
                                 "one convertible value ('ov', '9')",
                "override_lists": "singles; first+last" + (" (schemas with <= 1 item under test)" if tier == "quick"
                                                           else "; neighbours"),
                "include_route": "schemas with <= 1 item under test" if tier == "quick" else "all schemas",
                "declared_in": {d: sum(1 for m in fam if m[5] == d) for d in DECLS},
                "declared_in_bounds": (
                    "quick: 1 item x {base: placements 1, 2, all sites on + placement 1 item alone; base-two-steps, "
                    "base+own-keytype: placement 1, all sites on}; 2 items, both keys / multikeys: split, placement 1, "
                    "all sites on" if tier == "quick" else
                    "1 item x {base, base-two-steps, base+own-keytype} x {placement 1: all sites on and every single "
                    "site; placement 2: all sites on}; 2 items, both keys / multikeys x {split, base, split+own-keytype}, "
                    "placement 1, all sites on"),
                "loader_kinds": list(LOADER_KINDS),
                "fault_lines": [l for _, l in FAULT_LINES],
                "prior_texts": ("ancestor k=1; each fault line behind the whole text: sections closed / innermost "
                                "sections open; all served in sequence before the text" if tier == "quick" else
                                "ancestors k=1, 2; each fault line behind the text without its last k=0, 1 events: "
                                "sections closed / open; all in sequence, and (<= 1 item) each k=0 / ancestor-1 prior alone"),
                "import_sessions": ("import, plain, import, failing import, plain on a ConfigLoader (schemas with <= 1 "
                                    "item under test)" if tier == "quick" else
                                    "import, plain, import, failing import, plain on a ConfigLoader (all schemas); plain, "
                                    "import, failing import, import and the first on an ExtendedConfigLoader with the "
                                    "first specifier (<= 1 item)"),
                "import_package": IMPORT_PKG},
        assumptions=["reference entry order from vz/ref/match.py (finish order of containers)",
                     "map keys that are not valid basic-keys are not generated (statement silent)",
                     "mapped objects that are neither None nor callable, and callables that raise, are not "
                     "generated (statement silent)",
                     "what an override does to the VALUES is C14's subject: routes whose verdict differs from the "
                     "reference on the edited text are counted (route_verdict_disagreements), not judged here",
                     "loadConfig(url) / loadURL differ from loadFile only in how the resource is opened (not a route)",
                     "whether a prior text is accepted or refused is not judged (C01's subject); only internal errors "
                     "of a prior load are reported",
                     "the package imported by the history texts defines one section type the texts never use"])
    core.pmap(shard, fam, run.acc, shard_budget=1800.0)
    a = run.acc
    run.require(sum(v for k, v in a.classes.items() if k.startswith("accepted-") and k != "accepted-0-entries"
                    and k != "accepted-1-entries") > 500, "too few accepted nodes with >= 2 entries")
    run.require(a.extra.get("handler_calls_checked", 0) > 1000, "few handler calls")
    run.require(min(a.extra.get("callable-kind/" + k, 0) for k in KIND_NAMES) > 5000,
                "some kind of callable was mapped on too few accepted nodes")
    run.require(a.extra.get("falsy-callable-nodes-2+entries", 0) > 500,
                "the callable-kind axis ran on too few nodes with >= 2 entries")
    run.require(a.extra.get("mixed-kind-nodes", 0) > 500, "too few nodes with >= 2 distinct names for mixed kinds")
    run.require(a.extra.get("none-sets", 0) > 5000, "too few sets of None-mapped names")
    run.require(a.extra.get("wave2_maps_checked", 0) > 100000, "few maps of the what-is-mapped axis")
    for r in (ROUTES_QUICK if tier == "quick" else ROUTES):
        few = 5000 if r in ("override-list", ROUTES[3]) else 100000
        run.require(a.extra.get("route/" + r, 0) > few, "route %s accepted on too few nodes" % r)
    run.require(a.extra.get("override-loads-addressing-a-section-that-holds-handlers", 0) > 50000,
                "too few override loads whose addressed section holds handler-bearing items")
    run.require(a.extra.get("override-loads-two-sections-deep", 0) > 50000,
                "too few override loads addressing a section inside a section")
    run.require(a.extra.get("override-loads-with-schema-handler", 0) > 50000,
                "too few override loads under a schema-level handler")
    run.require(a.extra.get("loader-sessions", 0) > 50000, "too few two-load sessions of one loader object")
    # wave 5
    own2 = a.extra.get("decl-nodes-2+entries/own", 0)
    for d in DECLS:
        if d != "own" and any(m[5] == d for m in fam):
            run.require(a.extra.get("decl-nodes-2+entries/" + d, 0) > 1000,
                        "too few accepted nodes with >= 2 entries whose items are declared as '%s'" % d)
    run.require(own2 > 100000, "too few accepted nodes with >= 2 entries in the members that declare their own items")
    run.require(a.extra.get("nodes-with-an-inherited-handler-entry", 0) > 10000,
                "too few accepted nodes whose entry list holds the entry of an inherited item")
    run.require(a.extra.get("route/" + H_ROUTE, 0) > 100000, "route %s accepted on too few nodes" % H_ROUTE)
    run.require(a.extra.get("route/" + I_ROUTE, 0) > 100000, "route %s accepted on too few loads" % I_ROUTE)
    for lk in LOADER_KINDS:
        run.require(a.extra.get("history-sessions/" + lk, 0) > 100000,
                    "too few loader-history sessions on a %s" % lk)
    run.require(a.extra.get("history-sessions-after-a-load-that-failed-behind-closed-handler-sections", 0) > 100000,
                "too few history sessions whose loader had refused a text after sections with handler entries were closed")
    run.require(a.classes.get("history-prior:ancestor rejected", 0) > 5000,
                "too few prior loads refused for a reason of the schema's / the specifier's own")
    for f, _ in FAULT_LINES:
        for pos in ("closed", "open"):
            run.require(a.classes.get("history-prior:fault:%s/%s rejected" % (f, pos), 0) > 100000,
                        "fault line %s / %s served too rarely" % (f, pos))
            run.require(a.classes.get("history-prior:fault:%s/%s ok" % (f, pos), 0) == 0,
                        "a text ending in the failing line %s was accepted: the line does not do its job" % f)
    for k in ("import-after-fresh-loader", "plain-after-import", "import-after-plain", "plain-after-fault"):
        run.require(a.extra.get("import-history/" + k, 0) > 20000, "too few loads '%s'" % k)
    run.require(a.extra.get("import-history-loads-under-a-schema-handler-on-a-loader-that-imported", 0) > 20000,
                "too few loads under a schema-level handler on a loader that had imported a component")
    run.require(a.extra.get("route_verdict_disagreements", 0) * 100 <= a.extra.get("route/override", 0),
                "more than 1% of the override loads disagree with the reference on the verdict")
    return run


def replay(body):
    case = body["case"]
    m = case["member"]
    member = (tuple(m["label"]), M.items_from_labels(m["label"]), m["placement"], tuple(m["handlers_on"]), m["depth"],
              m.get("decl", "own"))
    S, root = build(member)
    assert M.render(S) == m["schema"], "schema of the replay file cannot be rebuilt"
    hist = tuple(tuple(e) for e in case["events"])
    rc = 0
    for _ in range(2):
        acc = core.Acc()
        sch = H.load_schema(m["schema"])
        check_case(S, sch, hist, case["text"], acc, dict(m, tier=m.get("tier", "quick")))
        print("text:\n" + case["text"])
        print("reference entries:", [n for n, _ in R.decide(S, hist).entries])
        for v in acc.violations.values():
            print("REPLAY violation:", v["kind"], "tags=", v["tags"], "route=", v["case"].get("route", "loadConfigFile"),
                  "observed=", v["observed"], "expected=", v["expected"])
            rc = 1
    return rc
