#!/opt/veriftools/pyvenv/bin/python
import json, sys, glob, jsonschema
m = json.load(open('/verif/MANIFEST.json'))
jsonschema.validate(m, json.load(open('/root/.vp/MANIFEST.schema.json')))
es = json.load(open('/root/.vp/EVIDENCE.schema.json'))
ok = True
for c in m['checks']:
    p = c['evidence_file']
    try:
        e = json.load(open(p))
        jsonschema.validate(e, es)
        assert e['level'] == c['level_claimed']['category'], "level mismatch"
        print("ok", p, e['tier'], e['coverage'].get('evaluations'), e['coverage'].get('distinct_nontrivial'), e['coverage'].get('states'), e['wall_s'])
    except Exception as ex:
        ok = False
        print("BAD", p, str(ex)[:300])
print("manifest ok; evidence", "ok" if ok else "BAD")
