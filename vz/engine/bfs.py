"""E2 - explicit-state breadth-first search over the real transition function.

A state is represented by the shortest event history reaching it.  A successor
is obtained by rebuilding (fresh loader, fresh matchers, history + one event is
parsed again - live ZConfig objects are never copied), canonicalised through
vz.harness.load.impl_state and deduplicated.  Every transition (history + event,
completed to a full text) is observed through the public API and handed to the
caller's `check`; merging only decides which histories are extended further.
"""
from vz.gen import schema as M
from vz.harness import load as H
from vz.ref import match as R


def explore(S, sch, root, depth, acc, check, with_handlers=False, rich=True, extend_filter=None):
    """check(hist, text) -> bool alive (whether to consider extending)."""
    root = tuple(root)
    seen = set()
    k0 = H.impl_state(sch, H.render_events(root, close=False), with_handlers)
    if k0 is None:
        raise RuntimeError("root prefix refused by the implementation: %r" % (root,))
    seen.add(k0)
    check(root, H.render_events(root))
    frontier = [root]
    level = 0
    while frontier and level < depth:
        nxt = []
        for hist in frontier:
            st = R.open_stack(S, hist)
            for ev in M.vocabulary(S, st[-1], len(st) > 1, rich):
                h2 = hist + (ev,)
                acc.current = h2
                alive = check(h2, H.render_events(h2))
                acc.transitions += 1
                acc.traces += 1
                if alive and level + 1 < depth:
                    k = H.impl_state(sch, H.render_events(h2, close=False), with_handlers)
                    if k is not None and k not in seen:
                        seen.add(k)
                        nxt.append(h2)
        frontier = nxt
        level += 1
    acc.states += len(seen)
    return len(seen)
