"""C19 - every resource opened during a load is closed, however the load ends.

Engine E4 (fault-point enumeration), level "fault_enumeration".

Scenario space: every ordered include / %import / extends / <import package> / <import src>
tree of 3..N resources (N = 4 quick, 5 thorough) from a generator of three node kinds

    S  schema document   slots: extends="..." (S), <import package> (P), <import src> (S)
    P  component package slots: <import package> (P)
    C  configuration     slots: %include inside a section (C), %import (P), %include (C)

in three families - "schema" (a schema graph is loaded), "config" (a configuration graph is
loaded against a one-file schema), "session" (a schema graph, then a configuration graph
against it, faults anywhere in both calls) - plus every such tree with one extra reference
edge (diamonds / repeated references), plus the loadFile entry point for the trees.
Files are REAL files in a scratch directory under /dev/shm, component packages are real
packages on sys.path, and the REAL openResource / urlopen / openPackageResource run.

For each scenario: one recording run counts the fault points (vz.engine.faults), then the
scenario is re-run once per (point, exception variant) with exactly that point failing.
Oracle after every call that returned or raised: every Resource handed out by createResource
is closed (closed is True, file is None, underlying file closed); every urlopen stream is
closed and was closed before the Resource for it was created; and a following failure-free
load (same SchemaLoader / same schema object with a fresh ConfigLoader) gives the
failure-free outcome.
"""
import functools
import os
import shutil
import sys
import tempfile

from vz import core
from vz.engine import faults as F

PKG = "vzc19p"          # generated component packages: vzc19p<idx>
DT = "vz.harness.vzdt."

# ----------------------------------------------------------------------------
# scenario generator


def _splits(m, k):
    """all k-tuples of non-negative ints summing to m"""
    if k == 1:
        yield (m,)
        return
    for a in range(m + 1):
        for rest in _splits(m - a, k - 1):
            yield (a,) + rest


SLOTS = {"S": ("S", "P", "S"), "P": ("P",), "C": ("C", "P", "C")}
SLOT_NAMES = {"S": ("extends", "import-package", "import-src"), "P": ("import-package",),
              "C": ("include-in-section", "percent-import", "include")}


@functools.lru_cache(maxsize=None)
def trees(kind, n):
    """all ordered trees with n nodes and a root of `kind`; a tree is (kind, slot0, slot1, ...)
    where each slot is a tuple of trees"""
    if n < 1:
        return ()
    out = []
    kinds = SLOTS[kind]
    for parts in _splits(n - 1, len(kinds)):
        choices = [forests(k, p) for k, p in zip(kinds, parts)]
        combos = [()]
        for ch in choices:
            combos = [c + (f,) for c in combos for f in ch]
        for c in combos:
            out.append((kind,) + c)
    return tuple(out)


@functools.lru_cache(maxsize=None)
def forests(kind, m):
    """all ordered forests with m nodes in total whose trees have roots of `kind`"""
    if m == 0:
        return ((),)
    out = []
    for k in range(1, m + 1):
        for t in trees(kind, k):
            for rest in forests(kind, m - k):
                out.append((t,) + rest)
    return tuple(out)


def size(t):
    return 1 + sum(size(c) for slot in t[1:] for c in slot)


def flatten(t, nodes, parent=None, slot=None):
    """number the nodes in text order (DFS preorder); nodes[i] = dict"""
    i = len(nodes)
    node = {"i": i, "kind": t[0], "parent": parent, "slot": slot, "slots": [[] for _ in t[1:]]}
    nodes.append(node)
    for s, sl in enumerate(t[1:]):
        for c in sl:
            node["slots"][s].append(flatten(c, nodes, i, s))
    return i


def subtree(nodes, i):
    out = {i}
    for sl in nodes[i]["slots"]:
        for c in sl:
            out |= subtree(nodes, c)
    return out


def extra_edges(nodes, lo, hi):
    """every extra reference edge (u, slot, v) inside nodes[lo:hi] that keeps the graph acyclic
    and is not a repetition of v's own tree edge"""
    out = []
    for v in range(lo + 1, hi):
        below = subtree(nodes, v)
        for u in range(lo, hi):
            if u in below:
                continue
            for s, k in enumerate(SLOTS[nodes[u]["kind"]]):
                if k != nodes[v]["kind"]:
                    continue
                if nodes[v]["parent"] == u and nodes[v]["slot"] == s:
                    continue
                out.append((u, s, v))
    return out


def scenarios(tier):
    """The explored scenario set (deterministic, independent of the seed)."""
    N = 4 if tier == "quick" else 5
    one = ("S", (), (), ())
    out = []

    def add(family, st, ct, via, extra=None):
        # quick tier: the largest graphs with an extra edge get one exception variant per point
        nv = 1 if (tier == "quick" and extra is not None and size(ct or st) >= 4) else 2
        out.append({"family": family, "schema": st, "config": ct, "via": via, "extra": extra,
                    "variants": nv})

    for n in range(3, N + 1):
        for t in trees("S", n):
            for via in ("url", "file"):
                add("schema", t, None, via)
            nodes = []
            flatten(t, nodes)
            for e in extra_edges(nodes, 0, len(nodes)):
                add("schema", t, None, "url", list(e))
        for t in trees("C", n):
            for via in ("url", "file"):
                add("config", one, t, via)
            nodes = []
            flatten(one, nodes)
            flatten(t, nodes)
            for e in extra_edges(nodes, 1, len(nodes)):
                add("config", one, t, "url", list(e))
    for a in range(2, N - 1):
        for b in range(2, N - a + 1):
            for st in trees("S", a):
                for ct in trees("C", b):
                    add("session", st, ct, "url")
    return out


# ----------------------------------------------------------------------------
# scenario -> files


def _schema_text(node, top, serves_config):
    i = node["i"]
    ext, pkgs, srcs = node["slots"]
    L = []
    L.append("<schema%s>" % (' extends="%s"' % " ".join("s%d.xml" % c for c in ext) if ext else ""))
    if top and serves_config:
        L.append('<abstracttype name="ext"/>')
    L.append('<sectiontype name="t%d" keytype="%skeyt" datatype="%ssect">' % (i, DT, DT))
    L.append('<key name="K%d" datatype="%sconv" default="d%d"/>' % (i, DT, i))
    L.append("</sectiontype>")
    for c in pkgs:
        L.append('<import package="%s%d"/>' % (PKG, c))
    for c in srcs:
        L.append('<import src="s%d.xml"/>' % c)
    if top and serves_config:
        L.append('<sectiontype name="sec" keytype="%skeyt" datatype="%ssect">' % (DT, DT))
        L.append('<key name="k" datatype="%sconv"/>' % DT)
        L.append('<multikey name="mk" datatype="%sconv"/>' % DT)
        L.append('<multisection type="sec" name="*" attribute="subs"/>')
        L.append('<multisection type="ext" name="*" attribute="exts"/>')
        L.append("</sectiontype>")
        L.append('<multikey name="mk" datatype="%sconv"/>' % DT)
        L.append('<multisection type="sec" name="*" attribute="secs"/>')
        L.append('<multisection type="ext" name="*" attribute="exts"/>')
    L.append('<multisection type="t%d" name="*" attribute="a%d"/>' % (i, i))
    L.append('<key name="y%d" datatype="%sconv" default="e%d"/>' % (i, DT, i))
    L.append("</schema>")
    return "\n".join(L) + "\n"


def _component_text(node, implements):
    i = node["i"]
    (pkgs,) = node["slots"]
    L = ["<component>"]
    L.append('<sectiontype name="q%d"%s keytype="%skeyt" datatype="%ssect">'
             % (i, ' implements="ext"' if implements else "", DT, DT))
    L.append('<key name="K" datatype="%sconv" default="g%d"/>' % (DT, i))
    L.append("</sectiontype>")
    for c in pkgs:
        L.append('<import package="%s%d"/>' % (PKG, c))
    L.append('<sectiontype name="r%d"/>' % i)
    L.append("</component>")
    return "\n".join(L) + "\n"


def _config_text(node):
    i = node["i"]
    insec, imps, incs = node["slots"]
    L = ["mk m%d" % i, "<sec>", "k v%d" % i, "<sec>", "k w%d" % i, "</sec>"]
    for c in insec:
        L.append("%%include c%d.conf" % c)
    L.append("</sec>")
    for c in imps:
        L.append("%%import %s%d" % (PKG, c))
        L.append("<q%d>" % c)
        L.append("k u%d" % c)
        L.append("</q%d>" % c)
    for c in incs:
        L.append("%%include c%d.conf" % c)
    L.append("mk z%d" % i)
    return "\n".join(L) + "\n"


class Mat:
    """A scenario materialised in a directory."""


def materialize(spec, root):
    m = Mat()
    m.spec = spec
    m.family = spec["family"]
    m.via = spec["via"]
    m.dir = root
    nodes = []
    flatten(tuple_tree(spec["schema"]), nodes)
    ns = len(nodes)
    has_config = spec["config"] is not None
    if has_config:
        croot = flatten(tuple_tree(spec["config"]), nodes)
    if spec.get("extra"):
        u, s, v = spec["extra"]
        nodes[u]["slots"][s].append(v)
    m.nodes = nodes
    m.packages = []
    in_config_graph = set(range(ns, len(nodes)))
    for nd in nodes:
        i = nd["i"]
        if nd["kind"] == "S":
            text = _schema_text(nd, i == 0, has_config)
            with open(os.path.join(root, "s%d.xml" % i), "w") as f:
                f.write(text)
        elif nd["kind"] == "C":
            with open(os.path.join(root, "c%d.conf" % i), "w") as f:
                f.write(_config_text(nd))
        else:
            name = "%s%d" % (PKG, i)
            d = os.path.join(root, name)
            os.mkdir(d)
            with open(os.path.join(d, "__init__.py"), "w") as f:
                f.write("")
            with open(os.path.join(d, "component.xml"), "w") as f:
                f.write(_component_text(nd, i in in_config_graph))
            m.packages.append(name)
    m.schema_path = os.path.join(root, "s0.xml")
    m.config_path = os.path.join(root, "c%d.conf" % croot) if has_config else None
    m.armed_resources = (len(nodes) - 1) if m.family == "config" else len(nodes)
    return m


def tuple_tree(t):
    """JSON round trip turns tuples into lists"""
    return (t[0],) + tuple(tuple(tuple_tree(c) for c in sl) for sl in t[1:])


def file_url(path):
    from urllib.request import pathname2url
    return "file://" + pathname2url(path)


def purge_packages():
    for k in [k for k in sys.modules if k.startswith(PKG)]:
        del sys.modules[k]


# ----------------------------------------------------------------------------
# observation: value trees and schema digests


def tree(v):
    from vz.harness import vzdt
    if isinstance(v, vzdt.Wrapped):
        return ("W", tree(v.value))
    if hasattr(v, "getSectionAttributes"):
        return ("S", v.getSectionType(), v.getSectionName(),
                tuple((a, tree(getattr(v, a))) for a in sorted(v.getSectionAttributes())))
    if isinstance(v, list):
        return ("L",) + tuple(tree(x) for x in v)
    if isinstance(v, dict):
        return ("D",) + tuple(sorted((k, tree(x)) for k, x in v.items()))
    return (type(v).__name__, v)


def _dt(f):
    n = getattr(f, "__qualname__", None)
    if n is None:
        return type(f).__module__ + "." + type(f).__qualname__ + "()"
    return getattr(f, "__module__", "?") + "." + n


def _default(info):
    try:
        d = info.getdefault()
    except Exception as e:       # pragma: no cover
        return "raises " + type(e).__name__

    def vi(x):
        if hasattr(x, "value") and hasattr(x, "position"):
            pos = x.position
            if pos is not None:
                pos = tuple(F.short(p) if isinstance(p, str) else p for p in pos)
            return (x.value, pos)
        return repr(x)
    if isinstance(d, list):
        return [vi(x) for x in d]
    if isinstance(d, dict):
        return sorted((k, [vi(y) for y in x] if isinstance(x, list) else vi(x)) for k, x in d.items())
    return vi(d) if d is not None else None


def _type_digest(t):
    if t.isabstract():
        return ("abstract", t.name, tuple(t.getsubtypenames()), t.description)
    ch = []
    for key, info in t:
        if info.issection():
            ch.append((key, "section", info.name, info.attribute, info.minOccurs, str(info.maxOccurs),
                       info.handler, info.sectiontype.name))
        else:
            ch.append((key, "key", type(info).__name__, info.name, info.attribute, info.minOccurs,
                       str(info.maxOccurs), info.handler, _dt(info.datatype), _default(info)))
    return ("concrete", t.name, _dt(t.keytype), _dt(t.valuetype), _dt(t.datatype), tuple(ch),
            t.description, getattr(t, "example", None))


def schema_digest(schema):
    """Complete structural digest of a loaded schema."""
    types = tuple((n, _type_digest(schema.gettype(n))) for n in sorted(schema.gettypenames()))
    comps = tuple(sorted(schema._components))
    return (F.short(schema.url), schema.handler, _type_digest(schema), types, comps)


def exc_sig(e, scratch=None):
    msg = str(e)
    if scratch:
        msg = msg.replace(scratch, "<scratch>")
    return (type(e).__name__, msg[:300])


# ----------------------------------------------------------------------------
# running one session (schema call, then optional configuration call)


def load_top(loader, path, via):
    """-> ("ok", value) | ("raised", (class, message)); the API call under observation"""
    try:
        if via == "file":
            f = open(path)
            try:
                return "ok", loader.loadFile(f, file_url(path))
            finally:
                f.close()
        return "ok", loader.loadURL(path)
    except Exception as e:
        return "raised", exc_sig(e, os.path.dirname(path))


def _probs(inst, phase, seen, out):
    for p in inst.check():
        p = dict(p, phase=phase)
        key = repr(sorted(p.items()))
        if key not in seen:
            seen.add(key)
            out.append(p)


def run_session(m, inst, fault=None, record=False, reuse=None):
    """One observed session.  `reuse` = result of an earlier session of the same scenario:
    the follow-up load re-uses its SchemaLoader (schema call) or its schema object
    (configuration call with a fresh ConfigLoader)."""
    from ZConfig.loader import ConfigLoader, SchemaLoader
    armed_schema = m.family != "config"
    res = {"problems": [], "schema": None, "sl": None, "sdig": None, "cfg": None, "failed_in": None}
    seen = set()
    inst.begin(fault, record)
    inst.active = False
    if reuse is not None and reuse["schema"] is not None and m.config_path is not None:
        schema = reuse["schema"]
        res["sl"] = reuse["sl"]
        res["sdig"] = reuse["sdig"]
    else:
        sl = reuse["sl"] if reuse is not None else SchemaLoader()
        res["sl"] = sl
        inst.active = armed_schema
        st, val = load_top(sl, m.schema_path, m.via if armed_schema else "url")
        if armed_schema:
            _probs(inst, "schema", seen, res["problems"])
        inst.active = False
        if st != "ok":
            res["failed_in"] = "schema"
            res["outcome"] = ("schema-raised", val)
            return res
        schema = val
        if armed_schema:
            res["sdig"] = schema_digest(schema)
    res["schema"] = schema
    if m.config_path is None:
        res["outcome"] = ("schema-ok", res["sdig"])
        return res
    cl = ConfigLoader(schema)
    res["cl"] = cl
    inst.active = True
    st, val = load_top(cl, m.config_path, m.via if not armed_schema else "url")
    _probs(inst, "config", seen, res["problems"])
    inst.active = False
    if st == "ok":
        res["cfg"] = ("ok", tree(val[0]))
    else:
        res["failed_in"] = "config"
        res["cfg"] = ("raised", val)
    res["outcome"] = ("session", res["sdig"], res["cfg"])
    return res


VARIANTS = {"read": ("oserror", "custom"), "rawread": ("oserror", "custom"),
            "conv": ("valueerror", "custom"), "sect": ("valueerror", "custom")}


def variants(point, how):
    if point["kind"] == "open":
        return ("oserror", "urlerror") if how == "url" else ("oserror", "custom")
    return VARIANTS[point["kind"]]


def outcome_class(res):
    o = res["outcome"]
    if o[0] == "schema-raised":
        return "schema-call-raised:" + o[1][0]
    if o[0] == "schema-ok":
        return "schema-call-returned"
    return "config-call-returned" if o[2][0] == "ok" else "config-call-raised:" + o[2][1][0]


def report_problems(acc, spec, fault, res, when):
    for p in res["problems"]:
        tags = {"kind": p["kind"], "phase": p["phase"], "when": when}
        for k in ("via", "loader", "nested"):
            if k in p:
                tags[k] = p[k]
        acc.violation(p["kind"], {"spec": spec, "fault": fault}, p,
                      "every resource / URL stream closed when the call returns or raises", tags=tags,
                      size=_size(spec, fault))


def _size(spec, fault):
    n = size(tuple_tree(spec["schema"])) + (size(tuple_tree(spec["config"])) if spec["config"] else 0)
    return n * 1000 + (1 if spec.get("extra") else 0) * 500 + (len(repr(fault)) if fault else 0)


def check_scenario(spec, root, inst, acc, only_fault=None, verbose=False):
    """Recording run + one run per fault point.  Returns False if rejected as vacuous."""
    d = tempfile.mkdtemp(dir=root)
    sys.path.insert(0, d)
    try:
        m = materialize(spec, d)
        acc.current = {"spec": spec, "fault": None}
        rec = run_session(m, inst, None, record=True)
        points = list(inst.points)
        how = {op["o"]: op["how"] for op in inst.opens}
        nres = len(inst.resources)
        kinds = {p["kind"] for p in points}
        kinds = {"read" if k == "rawread" else k for k in kinds}
        need = {"read", "open", "conv"} | ({"sect"} if spec["config"] else set())
        if nres < 3 or not need <= kinds:
            acc.extra["scenarios_rejected_as_vacuous"] += 1
            return False
        acc.states += 1
        acc.extra["scenarios_" + spec["family"]] += 1
        acc.extra["scenarios_via_" + spec["via"]] += 1
        if spec.get("extra"):
            acc.extra["scenarios_with_extra_edge"] += 1
        acc.extra["resources_seen"] += nres
        ff = rec["outcome"]
        acc.ev()
        acc.cls("failure-free:" + outcome_class(rec))
        report_problems(acc, spec, None, rec, "failure-free")
        again = run_session(m, inst, None, reuse=rec)
        report_problems(acc, spec, None, again, "failure-free-repeat")
        if again["outcome"] != ff:
            acc.violation("later-load-differs", {"spec": spec, "fault": None}, again["outcome"], ff,
                          tags={"kind": "later-load-differs", "family": spec["family"], "after": "failure-free"},
                          size=_size(spec, None))
        if verbose:
            print("  failure-free outcome:", outcome_class(rec), " points:", len(points), " resources:", nres)
        for p in points:
            first = True
            for exc in variants(p, how.get(p["a"]))[:spec.get("variants", 2)]:
                fault = [p["kind"], p["a"], p["b"], exc]
                if only_fault is not None and fault != only_fault:
                    continue
                acc.current = {"spec": spec, "fault": fault}
                purge_packages()
                res = run_session(m, inst, fault)
                if not inst.fired:
                    raise core.HarnessError("C19: fault point %r of %r was not reached on re-execution"
                                            % (fault, spec))
                acc.ev()
                acc.transitions += 1
                acc.traces += 1
                acc.extra["fault_runs_" + p["kind"]] += 1
                if first:
                    acc.extra["points_" + p["kind"]] += 1
                    if p["depth"] >= 1:
                        acc.nt()
                        acc.extra["points_nested_" + p["kind"]] += 1
                    first = False
                oc = outcome_class(res)
                acc.cls("faulted:" + oc)
                acc.clause("closure+later-load after fault in " + p["kind"])
                report_problems(acc, spec, fault, res, "faulted")
                later = run_session(m, inst, None, reuse=res)
                report_problems(acc, spec, fault, later, "load-after-failed-load")
                if later["outcome"] != ff:
                    acc.violation("later-load-differs", {"spec": spec, "fault": fault},
                                  later["outcome"], ff,
                                  tags={"kind": "later-load-differs", "family": spec["family"],
                                        "after": "fault-in-" + p["kind"], "exc": exc,
                                        "failed_in": res["failed_in"]},
                                  size=_size(spec, fault))
                if spec.get("extra") is None and res["failed_in"] == "config":
                    same_loader_reload(m, inst, acc, spec, fault, res, ff, verbose)
                if verbose:
                    print("  fault %r -> %s; problems=%d; later load %s" % (
                        fault, oc, len(res["problems"]),
                        "same as failure-free" if later["outcome"] == ff else "DIFFERS"))
                    for pr in res["problems"] + later["problems"]:
                        print("     problem:", pr)
                acc.sample(lambda: {"family": spec["family"], "schema": spec["schema"],
                                    "config": spec["config"], "extra": spec.get("extra"),
                                    "via": spec["via"], "fault": fault, "at": p["url"],
                                    "depth": p["depth"], "outcome": oc})
        return True
    finally:
        inst.end()
        inst.cleanup()
        try:
            sys.path.remove(d)
        except ValueError:
            pass
        sys.path_importer_cache.pop(d, None)
        purge_packages()
        shutil.rmtree(d, ignore_errors=True)


def same_loader_reload(m, inst, acc, spec, fault, res, ff, verbose):
    """Observation outside the outcome oracle (closure is still demanded): load again with the very
    ConfigLoader instance whose load failed.  A ConfigLoader keeps a private derived schema after
    the first %import; whether a failed load may leave it half-extended is not stated by the
    property, so a differing outcome is only counted."""
    inst.begin(None)
    inst.active = True
    st, val = load_top(res["cl"], m.config_path, m.via if m.family == "config" else "url")
    probs = {"problems": []}
    _probs(inst, "config", set(), probs["problems"])
    inst.active = False
    report_problems(acc, spec, fault, probs, "reload-with-the-failed-ConfigLoader")
    cfg = ("ok", tree(val[0])) if st == "ok" else ("raised", val)

    def has_package(t):
        return t[0] == "P" or any(has_package(c) for sl in t[1:] for c in sl)
    if cfg == ff[2]:
        acc.extra["observed_reload_with_failed_ConfigLoader_same_outcome"] += 1
    elif not has_package(tuple_tree(spec["config"])):
        # no %import anywhere: the loader has no designed per-loader state (its private derived schema
        # only exists after an %import), so the failed load must have left nothing behind in it either
        acc.violation("later-load-differs", {"spec": spec, "fault": fault}, cfg, ff[2],
                      tags={"kind": "later-load-differs", "family": spec["family"],
                            "after": "fault-in-" + fault[0], "loader": "same ConfigLoader instance (no %import)"},
                      size=_size(spec, fault))
    else:
        acc.extra["observed_reload_with_failed_ConfigLoader_differs_after_fault_in_" + fault[0]] += 1
        if verbose:
            print("  (observation) reload with the failed ConfigLoader instance differs:", cfg[0],
                  cfg[1] if cfg[0] == "raised" else "")


def shard_func(shard, acc):
    import ZConfig  # noqa: F401  (from core.REPO_SRC)
    root = tempfile.mkdtemp(prefix="vzc19-", dir="/dev/shm")
    inst = F.Instrument()
    path0 = list(sys.path)
    try:
        inst.install()
        for spec in shard:
            check_scenario(spec, root, inst, acc)
    finally:
        inst.cleanup()
        inst.uninstall()
        sys.path[:] = path0
        purge_packages()
        shutil.rmtree(root, ignore_errors=True)
    return acc


def run(tier):
    N = 4 if tier == "quick" else 5
    specs = scenarios(tier)
    run = core.Run(
        "C19", tier, "fault_enumeration",
        rule="every ordered include / %%import / extends / <import package> / <import src> tree of 3..%d "
             "resources (families: schema load, configuration load, schema-then-configuration session), each "
             "tree also with every acyclic extra reference edge and via loadFile; per scenario a recording run "
             "counts the fault points (open of resource j, read() of its URL stream, readline()/read() i of "
             "resource j, k-th datatype conversion, i-th section datatype call) and the scenario is re-run once "
             "per point and exception variant with exactly that point failing.  Non-trivial = fault point "
             "passed while a resource is open around it (nesting depth >= 1), counted once per (scenario, point); "
             "scenarios are distinct labelled graphs and shards partition them." % N,
        bounds={"max_resources": N, "min_resources": 3, "scenarios_generated": len(specs),
                "exception_variants": {"read/rawread": ["OSError", "InjectedFault(RuntimeError)"],
                                       "open": ["OSError", "URLError (URL) / InjectedFault (package)"],
                                       "conv/sect": ["ValueError", "InjectedFault(RuntimeError)"]},
                "faults_per_run": 1,
                "quick_tier_reduction": "scenarios with 4 resources AND an extra edge get only the first "
                                        "exception variant per point (thorough: both variants everywhere)"
                if tier == "quick" else None})
    run.assumptions = [
        "files are real files under /dev/shm opened by the real urlopen / package loader; remote URL schemes "
        "are not exercised (the stream handling in openResource is scheme independent)",
        "the later load uses the same SchemaLoader (schema call) or the same schema object with a fresh "
        "ConfigLoader (configuration call); re-using a ConfigLoader whose load failed is not covered",
        "sys.modules entries of generated component packages are not ZConfig state and are purged",
    ]
    nshards = 128 if tier == "quick" else 512
    shards = [specs[i::nshards] for i in range(nshards)]
    shards = [s for s in shards if s]
    core.pmap(shard_func, shards, run.acc, shard_budget=600.0)
    x = run.acc.extra
    run.require(run.acc.states >= 1, "no scenario passed the vacuity guard")
    for fam in ("schema", "config", "session"):
        run.require(x.get("scenarios_" + fam, 0) > 0, "no scenario of family " + fam)
    for k in ("read", "rawread", "open", "conv", "sect"):
        run.require(x.get("points_nested_" + k, 0) > 0, "no nested fault point of kind " + k)
    run.require(x.get("scenarios_via_file", 0) > 0, "loadFile never used")
    run.require(x.get("scenarios_with_extra_edge", 0) > 0, "no diamond scenario")
    run.require(any(k.startswith("failure-free:config-call-returned") for k in run.acc.classes),
                "no configuration scenario loads successfully")
    run.require(any(k.startswith("failure-free:schema-call-returned") for k in run.acc.classes),
                "no schema scenario loads successfully")
    run.require(x.get("scenarios_rejected_as_vacuous", 0) == 0,
                "generator produced scenarios the vacuity guard rejects")
    return run


def replay(body):
    import ZConfig  # noqa: F401
    case = body["case"]
    spec = case["spec"]
    fault = case.get("fault")
    rc = 0
    for n in (1, 2):
        print("--- replay execution %d: scenario %s fault %s" % (n, core._short(spec, 400), fault))
        acc = core.Acc()
        root = tempfile.mkdtemp(prefix="vzc19-", dir="/dev/shm")
        inst = F.Instrument()
        path0 = list(sys.path)
        try:
            inst.install()
            ok = check_scenario(spec, root, inst, acc, only_fault=fault if fault else [], verbose=True)
            if not ok:
                print("scenario rejected as vacuous")
        finally:
            inst.cleanup()
            inst.uninstall()
            sys.path[:] = path0
            purge_packages()
            shutil.rmtree(root, ignore_errors=True)
        for v in acc.violations.values():
            print("REPLAY violation:", v["kind"], "observed=", core._short(v["observed"], 300),
                  "expected=", core._short(v["expected"], 300))
        print("replayed: %d violation signature(s)" % len(acc.violations))
        if acc.violations:
            rc = 1
    return rc
